(* C12 proofs: configuration selection. *)
From CV Require Import Base.Bytes PP.Cond PP.CondProofs Cfg.Defs.
Local Open Scope N_scope.

(* ---------- std::set operations *)
Section SetLemmas.
Context {A : Type} (dec : forall a b : A, {a = b} + {a <> b}) (key : A -> str).

Lemma set_ins_in x l : In x (set_ins dec key x l).
Proof.
  induction l as [|y l IH]; cbn; [now left|].
  destruct (dec x y) as [->|]; [now left|].
  destruct (str_ltb (key x) (key y)); [now left|right; exact IH].
Qed.

Lemma set_ins_incl x y l : In y l -> In y (set_ins dec key x l).
Proof.
  induction l as [|z l IH]; cbn; [tauto|].
  intros H. destruct (dec x z); [exact H|].
  destruct (str_ltb (key x) (key z)); [right; exact H|].
  destruct H as [->|H]; [now left|right; auto].
Qed.

Lemma set_ins_inv x y l : In y (set_ins dec key x l) -> y = x \/ In y l.
Proof.
  induction l as [|z l IH]; cbn.
  - intros [->|[]]; now left.
  - destruct (dec x z); [intros H; right; exact H|].
    destruct (str_ltb (key x) (key z)).
    + intros [->|H]; [now left|right; exact H].
    + intros [->|H]; [right; now left|]. destruct (IH H); [now left|right; now right].
Qed.

Lemma set_mem_true x l : set_mem dec x l = true <-> In x l.
Proof.
  unfold set_mem. rewrite existsb_exists. split.
  - intros [y [Hy E]]. destruct (dec x y); [now subst|discriminate].
  - intros H. exists x. split; [exact H|]. destruct (dec x x); congruence.
Qed.

Lemma set_mem_false x l : ~ In x l -> set_mem dec x l = false.
Proof. intros H. destruct (set_mem dec x l) eqn:E; [|reflexivity]. now apply set_mem_true in E. Qed.

Lemma set_del_id x l : ~ In x l -> set_del dec x l = l.
Proof.
  unfold set_del. induction l as [|y l IH]; cbn; [reflexivity|].
  intros H. destruct (dec x y) as [->|]; [exfalso; apply H; now left|].
  rewrite IH; [reflexivity|]. intros H'; apply H; now right.
Qed.
End SetLemmas.

(* ---------- without -D / -U *)
Lemma mem_str_nil m : mem_str m [] = false.
Proof. reflexivity. Qed.

Lemma mem_str_In m l : mem_str m l = true <-> In m l.
Proof.
  unfold mem_str. rewrite existsb_exists. split.
  - intros [y [Hy E]]. apply str_eqb_eq in E. now subst.
  - intros H. exists m. split; [exact H|]. now apply str_eqb_eq.
Qed.

Lemma cfg_of_in cif i : In i (cfg_of cif []) <-> In (Some i) cif.
Proof.
  induction cif as [|[j|] cif IH]; cbn.
  - tauto.
  - split.
    + intros H. apply set_ins_inv in H. destruct H as [->|H]; [now left|right; now apply IH].
    + intros [H|H]; [inversion H; subst; apply set_ins_in|apply set_ins_incl; now apply IH].
  - rewrite IH. split; [now right|]. intros [H|H]; [discriminate|exact H].
Qed.

Lemma no_define_nil cif : existsb (has_define []) cif = false.
Proof. induction cif as [|[j|] cif IH]; cbn; auto. Qed.

(* names *)
Definition cifP (cif : list (option item)) (m : str) : Prop := exists v, In (Some (m, v)) cif.
Definition retP (ret : list cfg) (m : str) : Prop := exists c, In c ret /\ In m (map fst c).

Lemma defs_cfg_of cif m : In m (map fst (cfg_of cif [])) <-> cifP cif m.
Proof.
  rewrite in_map_iff. split.
  - intros [[m' v] [E H]]. cbn in E. subst. exists v. now apply cfg_of_in.
  - intros [v H]. exists (m, v). split; [reflexivity|now apply cfg_of_in].
Qed.

Lemma retP_ins c ret m : retP (ret_ins c ret) m -> In m (map fst c) \/ retP ret m.
Proof.
  intros [c' [H1 H2]]. apply set_ins_inv in H1. destruct H1 as [->|H1]; [now left|right; now exists c'].
Qed.

(* ---------- single steps *)
Definition st0 cf cfn rt := mkState cf cfn rt None.

Lemma step_line cf cfn rt id : step [] [] (st0 cf cfn rt) (DLine id) = st0 cf cfn rt.
Proof. reflexivity. Qed.

Lemma step_endif_eq cf cfn rt a b :
  step [] [] (st0 (a :: cf) (b :: cfn) rt) DEndif = st0 cf cfn rt.
Proof. reflexivity. Qed.

Lemma step_endif_nil cfn rt b :
  step [] [] (st0 [] (b :: cfn) rt) DEndif = st0 [] cfn rt.
Proof. reflexivity. Qed.

Lemma step_if_pos kd m cf cfn rt :
  positive_kind kd = true -> ~ retP rt m ->
  step [] [] (st0 cf cfn rt) (DIf (kd, m)) =
  st0 (Some (m, true) :: cf) (None :: cfn) (ret_ins (cfg_of (Some (m, true) :: cf) []) rt).
Proof.
  intros Hk Hr. unfold step, st0, step_if, config_of. cbn [skip fst snd ret cif cifn].
  rewrite mem_str_nil, Hk.
  assert (X : ret_mem [(m, negb true)] rt = false).
  { apply set_mem_false. intros H. apply Hr. exists [(m, negb true)]. split; [exact H|now left]. }
  destruct kd; try discriminate; rewrite X; reflexivity.
Qed.

Lemma step_if_ndef m cf cfn rt :
  step [] [] (st0 cf cfn rt) (DIf (KIfndef, m)) =
  st0 (None :: cf) (Some (m, false) :: cfn) (ret_ins (cfg_of cf []) rt).
Proof. reflexivity. Qed.

Lemma step_else_ndef m cf cfn rt :
  ~ retP rt m ->
  step [] [] (st0 (None :: cf) (Some (m, false) :: cfn) rt) DElse =
  st0 (Some (m, false) :: cf) (Some (m, false) :: cfn) (ret_ins (cfg_of (Some (m, false) :: cf) []) rt).
Proof.
  intros Hr. unfold step, st0, step_else. cbn [skip fst snd ret cif cifn tl].
  rewrite no_define_nil. cbn -[ret_mem ret_ins ret_del cfg_of].
  match goal with |- context [if ?b then _ else _] => assert (X : b = false) end.
  { apply set_mem_false. intros H. apply Hr. exists [(m, false)]. split; [exact H|now left]. }
  rewrite X. unfold ret_del. rewrite set_del_id; [reflexivity|].
  intros H. apply Hr. exists [(m, true)]. split; [exact H|now left].
Qed.

Lemma step_else_pos i cfn rt :
  In [] rt ->
  step [] [] (st0 [Some i] (None :: cfn) rt) DElse = st0 [] (None :: cfn) rt.
Proof.
  intros H. unfold step, st0, step_else. cbn [skip fst snd ret cif cifn tl].
  rewrite no_define_nil. cbn -[ret_mem ret_ins ret_del cfg_of].
  match goal with |- context [if ?b then _ else _] => assert (X : b = true) by (now apply set_mem_true) end.
  now rewrite X.
Qed.

(* ---------- tree semantics under a set of defined macros *)
Fixpoint keepS (S : list str) (f : forest guard) : list N :=
  match f with
  | FNil => []
  | FCode id n => id :: keepS S n
  | FGroup g b t n => (if guard_holds S g then keepS S b else keepS_tail S t) ++ keepS S n
  end
with keepS_tail (S : list str) (t : tail guard) : list N :=
  match t with
  | TEnd => []
  | TElse b => keepS S b
  | TElif g b t' => if guard_holds S g then keepS S b else keepS_tail S t'
  end.

Lemma keep_keepS S :
  (forall f, keep guard (ev_guard S) f = Some (keepS S f)) /\
  (forall t, keep_tail guard (ev_guard S) t = Some (keepS_tail S t)).
Proof.
  apply forest_tail_ind.
  - reflexivity.
  - intros id n IH. rewrite k_code, IH. reflexivity.
  - intros g b IHb t IHt n IHn. rewrite k_group. unfold ev_guard at 1.
    rewrite IHb, IHt, IHn. change (keepS S (FGroup g b t n)) with
      ((if guard_holds S g then keepS S b else keepS_tail S t) ++ keepS S n).
    destruct (guard_holds S g); reflexivity.
  - reflexivity.
  - intros b IHb. rewrite k_else. exact IHb.
  - intros g b IHb t IHt. rewrite k_elif. unfold ev_guard at 1. rewrite IHb, IHt.
    change (keepS_tail S (TElif g b t)) with (if guard_holds S g then keepS S b else keepS_tail S t).
    destruct (guard_holds S g); reflexivity.
Qed.

Lemma ks_code S id n : keepS S (FCode id n) = id :: keepS S n. Proof. reflexivity. Qed.
Lemma ks_group S g b t n : keepS S (FGroup g b t n) =
  (if guard_holds S g then keepS S b else keepS_tail S t) ++ keepS S n. Proof. reflexivity. Qed.
Lemma ks_else S b : keepS_tail S (TElse b) = keepS S b. Proof. reflexivity. Qed.
Lemma mc_code id n : macros (FCode id n) = macros n. Proof. reflexivity. Qed.
Lemma mc_group g b t n : macros (FGroup g b t n) = snd g :: macros b ++ macros_tail t ++ macros n.
Proof. reflexivity. Qed.
Lemma mc_else b : macros_tail (TElse b) = macros b. Proof. reflexivity. Qed.
Lemma mc_end : macros_tail TEnd = []. Proof. reflexivity. Qed.
Lemma id_code id n : ids guard (FCode id n) = id :: ids guard n. Proof. reflexivity. Qed.
Lemma id_group g b t n : ids guard (FGroup g b t n) = ids guard b ++ ids_tail guard t ++ ids guard n.
Proof. reflexivity. Qed.
Lemma id_else b : ids_tail guard (TElse b) = ids guard b. Proof. reflexivity. Qed.
Lemma id_end : ids_tail guard TEnd = []. Proof. reflexivity. Qed.

Lemma nodup_app_inv {A} (a b : list A) :
  NoDup (a ++ b) -> NoDup a /\ NoDup b /\ (forall x, In x a -> ~ In x b).
Proof.
  induction a as [|y a IH]; cbn; intros H.
  - split; [constructor|]. split; [exact H|]. intros x [].
  - inversion H as [|? ? Hn Hd]; subst. destruct (IH Hd) as [Na [Nb D]].
    split; [constructor; [intros X; apply Hn; apply in_or_app; now left|exact Na]|].
    split; [exact Nb|].
    intros x [->|Hx]; [intros X; apply Hn; apply in_or_app; now right|now apply D].
Qed.

Lemma cifP_some m v cf x : cifP (Some (m, v) :: cf) x <-> x = m \/ cifP cf x.
Proof.
  unfold cifP. split.
  - intros [w [H|H]]; [inversion H; now left|right; now exists w].
  - intros [->|[w H]]; [exists v; now left|exists w; now right].
Qed.
Lemma cifP_none cf x : cifP (None :: cf) x <-> cifP cf x.
Proof.
  unfold cifP. split.
  - intros [w [H|H]]; [discriminate|now exists w].
  - intros [w H]; exists w; now right.
Qed.
Lemma cifP_nil x : ~ cifP [] x.
Proof. intros [w []]. Qed.

Definition run0 (s : state) (ds : list (dir guard)) : state := fold_left (step [] []) ds s.
Lemma run0_app s a b : run0 s (a ++ b) = run0 (run0 s a) b.
Proof. apply fold_left_app. Qed.
Lemma run0_cons s d ds : run0 s (d :: ds) = run0 (step [] [] s d) ds.
Proof. reflexivity. Qed.

Definition ctx_cov (cf : list (option item)) (rt : list cfg) : Prop :=
  exists c0, In c0 rt /\ (forall m, cifP cf m <-> In m (map fst c0)).

Lemma ctx_cov_ins cf rt : ctx_cov cf (ret_ins (cfg_of cf []) rt).
Proof.
  exists (cfg_of cf []). split; [apply set_ins_in|]. intros m. symmetry. apply defs_cfg_of.
Qed.
Lemma ctx_cov_incl cf rt rt' : incl rt rt' -> ctx_cov cf rt -> ctx_cov cf rt'.
Proof. intros I [c0 [H1 H2]]. exists c0. split; auto. Qed.

Definition Cov (f : forest guard) : Prop :=
  forall k cf cfn rt rest,
   okf k f -> length cf = k -> NoDup (macros f) ->
   (forall m, In m (macros f) -> ~ cifP cf m) ->
   (forall m, In m (macros f) -> ~ retP rt m) ->
   In [] rt -> ctx_cov cf rt ->
   exists rt',
     run0 (st0 cf cfn rt) (flatten guard f ++ rest) = run0 (st0 cf cfn rt') rest /\
     incl rt rt' /\
     (forall m, retP rt' m -> retP rt m \/ cifP cf m \/ In m (macros f)) /\
     (forall id, In id (ids guard f) -> exists c, In c rt' /\ In id (keepS (map fst c) f) /\
          (forall m, cifP cf m -> In m (map fst c)) /\
          (forall m, In m (map fst c) -> cifP cf m \/ In m (macros f))).

Lemma incl_ins c rt : incl rt (ret_ins c rt).
Proof. intros x H. now apply set_ins_incl. Qed.

Lemma guard_pos_true S kd m : positive_kind kd = true -> In m S -> guard_holds S (kd, m) = true.
Proof. intros P H. unfold guard_holds. cbn. rewrite P. now apply mem_str_In. Qed.
Lemma guard_pos_false S kd m : positive_kind kd = true -> ~ In m S -> guard_holds S (kd, m) = false.
Proof.
  intros P H. unfold guard_holds. cbn. rewrite P. destruct (mem_str m S) eqn:E; [|reflexivity].
  now apply mem_str_In in E.
Qed.
Lemma guard_neg_true S kd m : positive_kind kd = false -> ~ In m S -> guard_holds S (kd, m) = true.
Proof.
  intros P H. unfold guard_holds. cbn. rewrite P. destruct (mem_str m S) eqn:E; [|reflexivity].
  now apply mem_str_In in E.
Qed.
Lemma guard_neg_false S kd m : positive_kind kd = false -> In m S -> guard_holds S (kd, m) = false.
Proof. intros P H. unfold guard_holds. cbn. rewrite P. apply mem_str_In in H. now rewrite H. Qed.

(* decomposition of the NoDup hypothesis of a group *)
Lemma nodup_group m (B T Nn : list str) :
  NoDup (m :: B ++ T ++ Nn) ->
  ~ In m B /\ ~ In m T /\ ~ In m Nn /\ NoDup B /\ NoDup T /\ NoDup Nn /\
  (forall x, In x B -> ~ In x T) /\ (forall x, In x B -> ~ In x Nn) /\ (forall x, In x T -> ~ In x Nn).
Proof.
  intros H. inversion H as [|? ? Hm Hd]; subst.
  destruct (nodup_app_inv _ _ Hd) as [NB [NTN DB]].
  destruct (nodup_app_inv _ _ NTN) as [NT [NN DT]].
  repeat split; auto.
  - intros X; apply Hm; apply in_or_app; now left.
  - intros X; apply Hm; apply in_or_app; right; apply in_or_app; now left.
  - intros X; apply Hm; apply in_or_app; right; apply in_or_app; now right.
  - intros x Hx X. apply (DB x Hx). apply in_or_app; now left.
  - intros x Hx X. apply (DB x Hx). apply in_or_app; now right.
Qed.

(* case: #ifdef m / #if defined(m)  body  #endif  next *)
Lemma cov_pos_end kd m b n :
  positive_kind kd = true -> Cov b -> Cov n -> Cov (FGroup (kd, m) b TEnd n).
Proof.
  intros P IHb IHn k cf cfn rt rest OK LEN ND DC DR E0 CC.
  cbn [okf fst] in OK. destruct OK as [_ [OKb [_ OKn]]].
  change (macros (FGroup (kd, m) b TEnd n)) with (m :: macros b ++ [] ++ macros n) in *.
  destruct (nodup_group m (macros b) [] (macros n) ND) as [Mb [_ [Mn [Nb [_ [Nn [_ [Dbn _]]]]]]]].
  set (cf1 := Some (m, true) :: cf).
  set (rt1 := ret_ins (cfg_of cf1 []) rt).
  assert (Rm : ~ retP rt m) by (apply DR; now left).
  assert (Cm : ~ cifP cf m) by (apply DC; now left).
  (* body *)
  destruct (IHb (S k) cf1 (None :: cfn) rt1 (DEndif :: flatten guard n ++ rest)) as [rt2 [R2 [I2 [N2 C2]]]].
  { exact OKb. } { cbn. now rewrite LEN. } { exact Nb. }
  { intros x Hx Hc. apply cifP_some in Hc. destruct Hc as [->|Hc]; [now apply Mb|].
    apply (DC x); [right; apply in_or_app; now left|exact Hc]. }
  { intros x Hx Hr. apply retP_ins in Hr. destruct Hr as [Hr|Hr].
    - apply defs_cfg_of in Hr. apply cifP_some in Hr. destruct Hr as [->|Hc]; [now apply Mb|].
      apply (DC x); [right; apply in_or_app; now left|exact Hc].
    - apply (DR x); [right; apply in_or_app; now left|exact Hr]. }
  { apply incl_ins, E0. } { apply ctx_cov_ins. }
  (* next *)
  destruct (IHn k cf cfn rt2 rest) as [rt3 [R3 [I3 [N3 C3]]]].
  { exact OKn. } { exact LEN. } { exact Nn. }
  { intros x Hx. apply DC. right. apply in_or_app. now right. }
  { intros x Hx Hr. destruct (N2 x Hr) as [Hr1|[Hc|Hb]].
    - apply retP_ins in Hr1. destruct Hr1 as [Hr1|Hr1].
      + apply defs_cfg_of in Hr1. apply cifP_some in Hr1. destruct Hr1 as [->|Hc]; [now apply Mn|].
        apply (DC x); [right; apply in_or_app; now right|exact Hc].
      + apply (DR x); [right; apply in_or_app; now right|exact Hr1].
    - apply cifP_some in Hc. destruct Hc as [->|Hc]; [now apply Mn|].
      apply (DC x); [right; apply in_or_app; now right|exact Hc].
    - now apply (Dbn x Hb). }
  { apply I2, incl_ins, E0. } { eapply ctx_cov_incl; [|exact CC]. intros x Hx. apply I2, incl_ins, Hx. }
  exists rt3. split; [|split; [|split]].
  - rewrite fl_group, fl_end. cbn [app]. rewrite run0_cons.
    change (st0 cf cfn rt) with (st0 cf cfn rt). rewrite (step_if_pos kd m cf cfn rt P Rm).
    fold cf1. fold rt1. rewrite <- !app_assoc. cbn [app]. rewrite R2.
    rewrite run0_cons. unfold cf1. rewrite step_endif_eq. exact R3.
  - intros x Hx. apply I3, I2, incl_ins, Hx.
  - intros x Hr. destruct (N3 x Hr) as [Hr2|[Hc|Hn]].
    + destruct (N2 x Hr2) as [Hr1|[Hc|Hb]].
      * apply retP_ins in Hr1. destruct Hr1 as [Hr1|Hr1]; [|now left].
        apply defs_cfg_of in Hr1. apply cifP_some in Hr1. destruct Hr1 as [->|Hc]; [right; right; now left|right; now left].
      * apply cifP_some in Hc. destruct Hc as [->|Hc]; [right; right; now left|right; now left].
      * right; right; right. apply in_or_app; now left.
    + right; now left.
    + right; right; right. apply in_or_app; now right.
  - intros id Hid. rewrite id_group, id_end in Hid. cbn [app] in Hid.
    apply in_app_or in Hid. destruct Hid as [Hid|Hid].
    + destruct (C2 id Hid) as [c [Hc [Hk [Ha Hb]]]].
      exists c. split; [apply I3, Hc|]. split; [|split].
      * rewrite ks_group. apply in_or_app. left.
        rewrite (guard_pos_true _ kd m P); [exact Hk|]. apply Ha. apply cifP_some. now left.
      * intros x Hx. apply Ha. apply cifP_some. now right.
      * intros x Hx. destruct (Hb x Hx) as [H1|H1].
        -- apply cifP_some in H1. destruct H1 as [->|H1]; [right; now left|now left].
        -- right. right. apply in_or_app. now left.
    + destruct (C3 id Hid) as [c [Hc [Hk [Ha Hb]]]].
      exists c. split; [exact Hc|]. split; [|split].
      * rewrite ks_group. apply in_or_app. now right.
      * exact Ha.
      * intros x Hx. destruct (Hb x Hx) as [H1|H1]; [now left|]. right. right. apply in_or_app. now right.
Qed.

(* case: #ifndef m  body  #endif  next *)
Lemma cov_ndef_end m b n :
  Cov b -> Cov n -> Cov (FGroup (KIfndef, m) b TEnd n).
Proof.
  intros IHb IHn k cf cfn rt rest OK LEN ND DC DR E0 CC.
  cbn [okf fst] in OK. destruct OK as [_ [OKb [_ OKn]]].
  change (macros (FGroup (KIfndef, m) b TEnd n)) with (m :: macros b ++ [] ++ macros n) in *.
  destruct (nodup_group m (macros b) [] (macros n) ND) as [Mb [_ [Mn [Nb [_ [Nn [_ [Dbn _]]]]]]]].
  set (cf1 := @None item :: cf).
  set (rt1 := ret_ins (cfg_of cf []) rt).
  assert (Rm : ~ retP rt m) by (apply DR; now left).
  assert (Cm : ~ cifP cf m) by (apply DC; now left).
  destruct (IHb (S k) cf1 (Some (m, false) :: cfn) rt1 (DEndif :: flatten guard n ++ rest)) as [rt2 [R2 [I2 [N2 C2]]]].
  { exact OKb. } { cbn. now rewrite LEN. } { exact Nb. }
  { intros x Hx Hc. apply (proj1 (cifP_none cf _)) in Hc.
    apply (DC x); [right; apply in_or_app; now left|exact Hc]. }
  { intros x Hx Hr. apply retP_ins in Hr. destruct Hr as [Hr|Hr].
    - apply defs_cfg_of in Hr. apply (DC x); [right; apply in_or_app; now left|exact Hr].
    - apply (DR x); [right; apply in_or_app; now left|exact Hr]. }
  { apply incl_ins, E0. } { exact (ctx_cov_ins cf1 rt). }
  destruct (IHn k cf cfn rt2 rest) as [rt3 [R3 [I3 [N3 C3]]]].
  { exact OKn. } { exact LEN. } { exact Nn. }
  { intros x Hx. apply DC. right. apply in_or_app. now right. }
  { intros x Hx Hr. destruct (N2 x Hr) as [Hr1|[Hc|Hb]].
    - apply retP_ins in Hr1. destruct Hr1 as [Hr1|Hr1].
      + apply defs_cfg_of in Hr1. apply (DC x); [right; apply in_or_app; now right|exact Hr1].
      + apply (DR x); [right; apply in_or_app; now right|exact Hr1].
    - apply (proj1 (cifP_none cf _)) in Hc. apply (DC x); [right; apply in_or_app; now right|exact Hc].
    - now apply (Dbn x Hb). }
  { apply I2, incl_ins, E0. } { eapply ctx_cov_incl; [|exact CC]. intros x Hx. apply I2, incl_ins, Hx. }
  exists rt3. split; [|split; [|split]].
  - rewrite fl_group, fl_end. cbn [app]. rewrite run0_cons.
    rewrite (step_if_ndef m cf cfn rt).
    fold cf1. fold rt1. rewrite <- !app_assoc. cbn [app]. rewrite R2.
    rewrite run0_cons. unfold cf1. rewrite step_endif_eq. exact R3.
  - intros x Hx. apply I3, I2, incl_ins, Hx.
  - intros x Hr. destruct (N3 x Hr) as [Hr2|[Hc|Hn]].
    + destruct (N2 x Hr2) as [Hr1|[Hc|Hb]].
      * apply retP_ins in Hr1. destruct Hr1 as [Hr1|Hr1]; [|now left].
        apply defs_cfg_of in Hr1. right; now left.
      * apply (proj1 (cifP_none cf _)) in Hc. right; now left.
      * right; right; right. apply in_or_app; now left.
    + right; now left.
    + right; right; right. apply in_or_app; now right.
  - intros id Hid. rewrite id_group, id_end in Hid. cbn [app] in Hid.
    apply in_app_or in Hid. destruct Hid as [Hid|Hid].
    + destruct (C2 id Hid) as [c [Hc [Hk [Ha Hb]]]].
      exists c. split; [apply I3, Hc|]. split; [|split].
      * rewrite ks_group. apply in_or_app. left.
        rewrite (guard_neg_true _ KIfndef m eq_refl); [exact Hk|].
        intros X. destruct (Hb m X) as [H1|H1]; [apply (proj1 (cifP_none cf _)) in H1; now apply Cm|now apply Mb].
      * intros x Hx. apply Ha. now apply (proj2 (cifP_none cf x)).
      * intros x Hx. destruct (Hb x Hx) as [H1|H1].
        -- apply (proj1 (cifP_none cf _)) in H1. now left.
        -- right. right. apply in_or_app. now left.
    + destruct (C3 id Hid) as [c [Hc [Hk [Ha Hb]]]].
      exists c. split; [exact Hc|]. split; [|split].
      * rewrite ks_group. apply in_or_app. now right.
      * exact Ha.
      * intros x Hx. destruct (Hb x Hx) as [H1|H1]; [now left|]. right. right. apply in_or_app. now right.
Qed.

(* case: #ifndef m  body  #else  ebody  #endif  next *)
Lemma cov_ndef_else m b eb n :
  Cov b -> Cov eb -> Cov n -> Cov (FGroup (KIfndef, m) b (TElse eb) n).
Proof.
  intros IHb IHe IHn k cf cfn rt rest OK LEN ND DC DR E0 CC.
  cbn [okf fst positive_kind] in OK. destruct OK as [_ [OKb [OKe OKn]]].
  change (macros (FGroup (KIfndef, m) b (TElse eb) n)) with (m :: macros b ++ macros eb ++ macros n) in *.
  destruct (nodup_group m (macros b) (macros eb) (macros n) ND) as [Mb [Me [Mn [Nb [Ne [Nn [Dbe [Dbn Den]]]]]]]].
  set (cf1 := @None item :: cf).
  set (cfn1 := Some (m, false) :: cfn).
  set (rt1 := ret_ins (cfg_of cf []) rt).
  assert (Rm : ~ retP rt m) by (apply DR; now left).
  assert (Cm : ~ cifP cf m) by (apply DC; now left).
  assert (inB : forall x, In x (macros b) -> In x (m :: macros b ++ macros eb ++ macros n))
    by (intros; right; apply in_or_app; now left).
  assert (inE : forall x, In x (macros eb) -> In x (m :: macros b ++ macros eb ++ macros n))
    by (intros; right; apply in_or_app; right; apply in_or_app; now left).
  assert (inN : forall x, In x (macros n) -> In x (m :: macros b ++ macros eb ++ macros n))
    by (intros; right; apply in_or_app; right; apply in_or_app; now right).
  (* body *)
  destruct (IHb (S k) cf1 cfn1 rt1 (DElse :: flatten guard eb ++ DEndif :: flatten guard n ++ rest))
    as [rt2 [R2 [I2 [N2 C2]]]].
  { exact OKb. } { cbn. now rewrite LEN. } { exact Nb. }
  { intros x Hx Hc. apply (proj1 (cifP_none cf _)) in Hc. apply (DC x); auto. }
  { intros x Hx Hr. apply retP_ins in Hr. destruct Hr as [Hr|Hr].
    - apply defs_cfg_of in Hr. apply (DC x); auto.
    - apply (DR x); auto. }
  { apply incl_ins, E0. } { exact (ctx_cov_ins cf1 rt). }
  (* what rt2 mentions *)
  assert (N2' : forall x, retP rt2 x -> retP rt x \/ cifP cf x \/ In x (macros b)).
  { intros x Hr. destruct (N2 x Hr) as [Hr1|[Hc|Hb]].
    - apply retP_ins in Hr1. destruct Hr1 as [Hr1|Hr1]; [|now left].
      apply defs_cfg_of in Hr1. right; now left.
    - apply (proj1 (cifP_none cf _)) in Hc. right; now left.
    - right; now right. }
  assert (Rm2 : ~ retP rt2 m).
  { intros Hr. destruct (N2' m Hr) as [H|[H|H]]; auto. }
  set (cf2 := Some (m, false) :: cf).
  set (rt3 := ret_ins (cfg_of cf2 []) rt2).
  (* else body *)
  destruct (IHe (S k) cf2 cfn1 rt3 (DEndif :: flatten guard n ++ rest)) as [rt4 [R4 [I4 [N4 C4]]]].
  { exact OKe. } { cbn. now rewrite LEN. } { exact Ne. }
  { intros x Hx Hc. apply cifP_some in Hc. destruct Hc as [->|Hc]; [now apply Me|]. apply (DC x); auto. }
  { intros x Hx Hr. apply retP_ins in Hr. destruct Hr as [Hr|Hr].
    - apply defs_cfg_of in Hr. apply cifP_some in Hr. destruct Hr as [->|Hc]; [now apply Me|]. apply (DC x); auto.
    - destruct (N2' x Hr) as [H|[H|H]].
      + apply (DR x); auto.
      + apply (DC x); auto.
      + now apply (Dbe x H). }
  { apply incl_ins, I2, incl_ins, E0. } { apply ctx_cov_ins. }
  assert (N4' : forall x, retP rt4 x -> retP rt x \/ cifP cf x \/ x = m \/ In x (macros b) \/ In x (macros eb)).
  { intros x Hr. destruct (N4 x Hr) as [Hr1|[Hc|Hb]].
    - apply retP_ins in Hr1. destruct Hr1 as [Hr1|Hr1].
      + apply defs_cfg_of in Hr1. apply cifP_some in Hr1. destruct Hr1 as [->|Hc]; [right; right; now left|right; now left].
      + destruct (N2' x Hr1) as [H|[H|H]]; [now left|right; now left|right; right; right; now left].
    - apply cifP_some in Hc. destruct Hc as [->|Hc]; [right; right; now left|right; now left].
    - right; right; right; now right. }
  (* next *)
  destruct (IHn k cf cfn rt4 rest) as [rt5 [R5 [I5 [N5 C5]]]].
  { exact OKn. } { exact LEN. } { exact Nn. }
  { intros x Hx. apply DC. auto. }
  { intros x Hx Hr. destruct (N4' x Hr) as [H|[H|[->|[H|H]]]].
    - apply (DR x); auto.
    - apply (DC x); auto.
    - now apply Mn.
    - now apply (Dbn x H).
    - now apply (Den x H). }
  { apply I4, incl_ins, I2, incl_ins, E0. }
  { eapply ctx_cov_incl; [|exact CC]. intros x Hx. apply I4, incl_ins, I2, incl_ins, Hx. }
  exists rt5. split; [|split; [|split]].
  - rewrite fl_group, fl_else. cbn [app]. rewrite run0_cons.
    rewrite (step_if_ndef m cf cfn rt).
    fold cf1. fold cfn1. fold rt1. rewrite <- !app_assoc. cbn [app]. rewrite <- !app_assoc. cbn [app]. rewrite R2.
    rewrite run0_cons. unfold cf1, cfn1. rewrite (step_else_ndef m cf cfn rt2 Rm2).
    fold cf2. fold cfn1. fold rt3. rewrite R4.
    rewrite run0_cons. unfold cf2, cfn1. rewrite step_endif_eq. exact R5.
  - intros x Hx. apply I5, I4, incl_ins, I2, incl_ins, Hx.
  - intros x Hr. destruct (N5 x Hr) as [Hr2|[Hc|Hn]].
    + destruct (N4' x Hr2) as [H|[H|[->|[H|H]]]]; [now left|right; now left|right; right; now left| |];
        right; right; auto.
    + right; now left.
    + right; right; auto.
  - intros id Hid. rewrite id_group, id_else in Hid.
    apply in_app_or in Hid. destruct Hid as [Hid|Hid]; [|apply in_app_or in Hid; destruct Hid as [Hid|Hid]].
    + destruct (C2 id Hid) as [c [Hc [Hk [Ha Hb]]]].
      exists c. split; [apply I5, I4, incl_ins, Hc|]. split; [|split].
      * rewrite ks_group. apply in_or_app. left.
        rewrite (guard_neg_true _ KIfndef m eq_refl); [exact Hk|].
        intros X. destruct (Hb m X) as [H1|H1]; [apply (proj1 (cifP_none cf _)) in H1; now apply Cm|now apply Mb].
      * intros x Hx. apply Ha. now apply (proj2 (cifP_none cf x)).
      * intros x Hx. destruct (Hb x Hx) as [H1|H1].
        -- apply (proj1 (cifP_none cf _)) in H1. now left.
        -- right. auto.
    + destruct (C4 id Hid) as [c [Hc [Hk [Ha Hb]]]].
      exists c. split; [apply I5, Hc|]. split; [|split].
      * rewrite ks_group. apply in_or_app. left.
        rewrite (guard_neg_false _ KIfndef m eq_refl); [rewrite ks_else; exact Hk|].
        apply Ha. apply cifP_some. now left.
      * intros x Hx. apply Ha. apply cifP_some. now right.
      * intros x Hx. destruct (Hb x Hx) as [H1|H1].
        -- apply cifP_some in H1. destruct H1 as [->|H1]; [right; now left|now left].
        -- right. auto.
    + destruct (C5 id Hid) as [c [Hc [Hk [Ha Hb]]]].
      exists c. split; [exact Hc|]. split; [|split].
      * rewrite ks_group. apply in_or_app. now right.
      * exact Ha.
      * intros x Hx. destruct (Hb x Hx) as [H1|H1]; [now left|]. right. auto.
Qed.

(* case: #ifdef m / #if defined(m)  body  #else  ebody  #endif  next, not nested in a body *)
Lemma cov_pos_else kd m b eb n :
  positive_kind kd = true -> Cov b -> Cov eb -> Cov n -> Cov (FGroup (kd, m) b (TElse eb) n).
Proof.
  intros P IHb IHe IHn k cf cfn rt rest OK LEN ND DC DR E0 CC.
  cbn [okf fst] in OK. rewrite P in OK. destruct OK as [_ [OKb [[K0 OKe] OKn]]].
  subst k. destruct cf as [|? ?]; [|discriminate]. clear LEN.
  change (macros (FGroup (kd, m) b (TElse eb) n)) with (m :: macros b ++ macros eb ++ macros n) in *.
  destruct (nodup_group m (macros b) (macros eb) (macros n) ND) as [Mb [Me [Mn [Nb [Ne [Nn [Dbe [Dbn Den]]]]]]]].
  set (cf1 := [Some (m, true)]).
  set (rt1 := ret_ins (cfg_of cf1 []) rt).
  assert (Rm : ~ retP rt m) by (apply DR; now left).
  assert (inB : forall x, In x (macros b) -> In x (m :: macros b ++ macros eb ++ macros n))
    by (intros; right; apply in_or_app; now left).
  assert (inE : forall x, In x (macros eb) -> In x (m :: macros b ++ macros eb ++ macros n))
    by (intros; right; apply in_or_app; right; apply in_or_app; now left).
  assert (inN : forall x, In x (macros n) -> In x (m :: macros b ++ macros eb ++ macros n))
    by (intros; right; apply in_or_app; right; apply in_or_app; now right).
  destruct (IHb 1%nat cf1 (None :: cfn) rt1 (DElse :: flatten guard eb ++ DEndif :: flatten guard n ++ rest))
    as [rt2 [R2 [I2 [N2 C2]]]].
  { exact OKb. } { reflexivity. } { exact Nb. }
  { intros x Hx Hc. apply cifP_some in Hc. destruct Hc as [->|Hc]; [now apply Mb|now apply cifP_nil in Hc]. }
  { intros x Hx Hr. apply retP_ins in Hr. destruct Hr as [Hr|Hr].
    - apply defs_cfg_of in Hr. apply cifP_some in Hr. destruct Hr as [->|Hc]; [now apply Mb|now apply cifP_nil in Hc].
    - apply (DR x); auto. }
  { apply incl_ins, E0. } { apply ctx_cov_ins. }
  assert (N2' : forall x, retP rt2 x -> retP rt x \/ x = m \/ In x (macros b)).
  { intros x Hr. destruct (N2 x Hr) as [Hr1|[Hc|Hb]].
    - apply retP_ins in Hr1. destruct Hr1 as [Hr1|Hr1]; [|now left].
      apply defs_cfg_of in Hr1. apply cifP_some in Hr1. destruct Hr1 as [->|Hc]; [right; now left|now apply cifP_nil in Hc].
    - apply cifP_some in Hc. destruct Hc as [->|Hc]; [right; now left|now apply cifP_nil in Hc].
    - right; now right. }
  assert (E2 : In [] rt2) by (apply I2, incl_ins, E0).
  destruct (IHe O [] (None :: cfn) rt2 (DEndif :: flatten guard n ++ rest)) as [rt3 [R3 [I3 [N3 C3]]]].
  { exact OKe. } { reflexivity. } { exact Ne. }
  { intros x Hx Hc. now apply cifP_nil in Hc. }
  { intros x Hx Hr. destruct (N2' x Hr) as [H|[->|H]].
    - apply (DR x); auto.
    - now apply Me.
    - now apply (Dbe x H). }
  { exact E2. }
  { exists []. split; [exact E2|]. intros x. split; [intros H; now apply cifP_nil in H|intros []]. }
  assert (N3' : forall x, retP rt3 x -> retP rt x \/ x = m \/ In x (macros b) \/ In x (macros eb)).
  { intros x Hr. destruct (N3 x Hr) as [Hr1|[Hc|Hb]].
    - destruct (N2' x Hr1) as [H|[H|H]]; auto.
    - now apply cifP_nil in Hc.
    - auto. }
  destruct (IHn O [] cfn rt3 rest) as [rt4 [R4 [I4 [N4 C4]]]].
  { exact OKn. } { reflexivity. } { exact Nn. }
  { intros x Hx Hc. now apply cifP_nil in Hc. }
  { intros x Hx Hr. destruct (N3' x Hr) as [H|[->|[H|H]]].
    - apply (DR x); auto.
    - now apply Mn.
    - now apply (Dbn x H).
    - now apply (Den x H). }
  { apply I3, E2. }
  { exists []. split; [apply I3, E2|]. intros x. split; [intros H; now apply cifP_nil in H|intros []]. }
  exists rt4. split; [|split; [|split]].
  - rewrite fl_group, fl_else. cbn [app]. rewrite run0_cons.
    rewrite (step_if_pos kd m [] cfn rt P Rm).
    unfold rt1, cf1 in R2. rewrite <- !app_assoc. cbn [app]. rewrite <- !app_assoc. cbn [app]. rewrite R2.
    rewrite run0_cons. rewrite (step_else_pos (m, true) cfn rt2 E2).
    rewrite R3. rewrite run0_cons. rewrite step_endif_nil. exact R4.
  - intros x Hx. apply I4, I3, I2, incl_ins, Hx.
  - intros x Hr. destruct (N4 x Hr) as [Hr2|[Hc|Hn]].
    + destruct (N3' x Hr2) as [H|[->|[H|H]]]; [now left|right; right; now left| |]; right; right; auto.
    + now apply cifP_nil in Hc.
    + right; right; auto.
  - intros id Hid. rewrite id_group, id_else in Hid.
    apply in_app_or in Hid. destruct Hid as [Hid|Hid]; [|apply in_app_or in Hid; destruct Hid as [Hid|Hid]].
    + destruct (C2 id Hid) as [c [Hc [Hk [Ha Hb]]]].
      exists c. split; [apply I4, I3, Hc|]. split; [|split].
      * rewrite ks_group. apply in_or_app. left.
        rewrite (guard_pos_true _ kd m P); [exact Hk|]. apply Ha. apply cifP_some. now left.
      * intros x Hx. now apply cifP_nil in Hx.
      * intros x Hx. destruct (Hb x Hx) as [H1|H1].
        -- apply cifP_some in H1. destruct H1 as [->|H1]; [right; now left|now apply cifP_nil in H1].
        -- right. auto.
    + destruct (C3 id Hid) as [c [Hc [Hk [Ha Hb]]]].
      exists c. split; [apply I4, Hc|]. split; [|split].
      * rewrite ks_group. apply in_or_app. left.
        rewrite (guard_pos_false _ kd m P); [rewrite ks_else; exact Hk|].
        intros X. destruct (Hb m X) as [H1|H1]; [now apply cifP_nil in H1|now apply Me].
      * intros x Hx. now apply cifP_nil in Hx.
      * intros x Hx. destruct (Hb x Hx) as [H1|H1]; [now apply cifP_nil in H1|]. right. auto.
    + destruct (C4 id Hid) as [c [Hc [Hk [Ha Hb]]]].
      exists c. split; [exact Hc|]. split; [|split].
      * rewrite ks_group. apply in_or_app. now right.
      * exact Ha.
      * intros x Hx. destruct (Hb x Hx) as [H1|H1]; [now left|]. right. auto.
Qed.

Lemma cov_all : forall f, Cov f.
Proof.
  apply (forest_mut guard Cov (fun t => match t with TElse eb => Cov eb | _ => True end)).
  - intros k cf cfn rt rest OK LEN ND DC DR E0 CC. exists rt. split; [reflexivity|].
    split; [apply incl_refl|]. split; [intros; now left|]. intros id [].
  - intros id n IHn k cf cfn rt rest OK LEN ND DC DR E0 CC.
    destruct (IHn k cf cfn rt rest OK LEN ND DC DR E0 CC) as [rt' [R [I [Nm C]]]].
    exists rt'. split; [|split; [exact I|split; [exact Nm|]]].
    + rewrite fl_code. cbn [app]. rewrite run0_cons, step_line. exact R.
    + intros id' Hid. rewrite id_code in Hid. destruct Hid as [<-|Hid].
      * destruct CC as [c0 [H1 H2]]. exists c0. split; [apply I, H1|]. split; [rewrite ks_code; now left|].
        split; [intros m Hm; now apply H2|intros m Hm; left; now apply H2].
      * destruct (C id' Hid) as [c [Hc [Hk [Ha Hb]]]]. exists c. split; [exact Hc|].
        split; [rewrite ks_code; now right|]. split; [exact Ha|exact Hb].
  - intros [kd m] b IHb t IHt n IHn. destruct t as [|eb|g' b' t'].
    + destruct kd.
      * now apply cov_pos_end.
      * now apply cov_ndef_end.
      * now apply cov_pos_end.
      * intros k cf cfn rt rest OK. exfalso. cbn in OK. destruct OK as [X _]. now apply X.
    + destruct kd.
      * now apply cov_pos_else.
      * now apply cov_ndef_else.
      * now apply cov_pos_else.
      * intros k cf cfn rt rest OK. exfalso. cbn in OK. destruct OK as [X _]. now apply X.
    + intros k cf cfn rt rest OK. exfalso. cbn in OK. tauto.
  - exact I.
  - intros b Hb. exact Hb.
  - intros; exact I.
Qed.

Lemma dui_defs_nil c : dui_defs [] [] c = map fst c.
Proof.
  unfold dui_defs. cbn [app]. induction (map fst c) as [|x l IH]; [reflexivity|].
  cbn [filter]. rewrite mem_str_nil. cbn [negb]. now rewrite IH.
Qed.

Lemma get_configs_run0 ds : get_configs [] [] ds = ret (run0 (st0 [] [] [[]]) ds).
Proof. reflexivity. Qed.

(* coverage, tree semantics *)
Theorem configs_cover_partial f :
  okf O f -> NoDup (macros f) ->
  forall id, In id (ids guard f) ->
  exists c l, In c (get_configs [] [] (flatten guard f)) /\
              keep guard (ev_guard (dui_defs [] [] c)) f = Some l /\ In id l.
Proof.
  intros OK ND id Hid.
  destruct (cov_all f O [] [] [[]] [] OK eq_refl ND) as [rt' [R [I [Nm C]]]].
  - intros m _ H. now apply cifP_nil in H.
  - intros m _ [c [[<-|[]] H]]. destruct H.
  - now left.
  - exists []. split; [now left|]. intros m. split; [intros H; now apply cifP_nil in H|intros []].
  - destruct (C id Hid) as [c [Hc [Hk _]]].
    exists c, (keepS (map fst c) f). split; [|split].
    + rewrite get_configs_run0. rewrite app_nil_r in R. rewrite R. exact Hc.
    + rewrite dui_defs_nil. apply (proj1 (keep_keepS (map fst c))).
    + exact Hk.
Qed.

Lemma ev_guard_total S (f : forest guard) : forall g, In g (conds guard f) -> ev_guard S g <> None.
Proof. intros g _. discriminate. Qed.

(* coverage, end to end: the line is kept by the ifstates machine under one of the
   configurations the default run analyses *)
Theorem configs_cover_e2e_partial f :
  okf O f -> NoDup (macros f) ->
  (length (get_configs [] [] (flatten guard f)) <= 12)%nat ->
  forall id, In id (ids guard f) -> In id (covered_ids false None [] [] (flatten guard f)).
Proof.
  intros OK ND LEN id Hid.
  destruct (configs_cover_partial f OK ND id Hid) as [c [l [Hc [Hk Hl]]]].
  unfold covered_ids. apply in_flat_map. exists c. split.
  - unfold analysed, eff_max, configurations, select, MAXCONFIGS_DEFAULT. cbn [N.ltb N.compare Pos.compare Pos.compare_cont].
    change (1 <? 12) with true. cbv iota.
    rewrite firstn_all2; [exact Hc|]. exact LEN.
  - unfold kept. rewrite (cond_file_complete guard _ f l (ev_guard_total _ f) Hk). exact Hl.
Qed.

(* ---- the cut at --max-configs *)
Theorem select_all_when_fits mx cs :
  match mx with Some k => (length cs <= N.to_nat k)%nat | None => True end -> select mx cs = cs.
Proof. destruct mx as [k|]; cbn; intros H; [now apply firstn_all2|reflexivity]. Qed.

(* ---- -D / -U *)
Theorem userD_in_every_cfg X userD userU c :
  In X userD -> ~ In X userU -> In X (dui_defs userD userU c).
Proof.
  intros HD HU. unfold dui_defs. apply filter_In. split; [apply in_or_app; now left|].
  destruct (mem_str X userU) eqn:E; [|reflexivity]. now apply mem_str_In in E.
Qed.

Theorem userU_in_no_cfg X userD userU c :
  In X userU -> ~ In X (dui_defs userD userU c).
Proof.
  intros HU H. unfold dui_defs in H. apply filter_In in H. destruct H as [_ H].
  apply mem_str_In in HU. now rewrite HU in H.
Qed.

(* with -D and neither --force nor --max-configs only the user configuration is analysed *)
Theorem userD_default_single d userD userU ds :
  analysed false None (d :: userD) userU ds = [[]].
Proof. reflexivity. Qed.

(* guards on user-fixed macros evaluate accordingly in every analysed configuration *)
Corollary userD_guard X userD userU c kd :
  In X userD -> ~ In X userU ->
  guard_holds (dui_defs userD userU c) (kd, X) = positive_kind kd.
Proof.
  intros HD HU. pose proof (userD_in_every_cfg X userD userU c HD HU) as H.
  apply mem_str_In in H. unfold guard_holds. cbn [fst snd]. rewrite H. now destruct (positive_kind kd).
Qed.
Corollary userU_guard X userD userU c kd :
  In X userU ->
  guard_holds (dui_defs userD userU c) (kd, X) = negb (positive_kind kd).
Proof.
  intros HU. pose proof (userU_in_no_cfg X userD userU c HU) as H.
  unfold guard_holds. cbn [fst snd]. destruct (mem_str X (dui_defs userD userU c)) eqn:E.
  - now apply mem_str_In in E.
  - now destruct (positive_kind kd).
Qed.

(* ---- the full family is NOT covered *)
Definition mX : str := [88]. Definition mA : str := [65]. Definition mB : str := [66]. Definition mC : str := [67].
(*  #ifdef X / #ifdef A / #else / #endif / #ifdef B / <line 3> / #endif / #endif *)
Definition refute1 : forest guard :=
  FGroup (KIfdef, mX)
    (FGroup (KIfdef, mA) FNil (TElse FNil)
      (FGroup (KIfdef, mB) (FCode 3 FNil) TEnd FNil))
    TEnd FNil.
(*  #if !defined(A) / #ifdef C / <line 3> / #endif / #endif *)
Definition refute2 : forest guard :=
  FGroup (KIfNDef, mA) (FGroup (KIfdef, mC) (FCode 3 FNil) TEnd FNil) TEnd FNil.

Theorem configs_cover_refuted :
  in_family refute1 /\ NoDup (macros refute1) /\ In 3 (ids guard refute1) /\
  (length (get_configs [] [] (flatten guard refute1)) <= 12)%nat /\
  In 3 (keepS [mX; mB] refute1) /\
  ~ In 3 (covered_ids false None [] [] (flatten guard refute1)) /\
  map render_cfg (get_configs [] [] (flatten guard refute1)) =
    [[]; [65;61;65;59;88;61;88]; [66;61;66]; [88;61;88]].   (* "", "A=A;X=X", "B=B", "X=X" *)
Proof.
  split; [cbn; tauto|]. split.
  { cbn. repeat constructor; cbn; intuition discriminate. }
  split; [cbn; auto|]. split; [vm_compute; repeat constructor|].
  split; [vm_compute; auto|]. split; [vm_compute; intuition discriminate|]. vm_compute. reflexivity.
Qed.

Theorem configs_cover_refuted_notdefined :
  in_family refute2 /\ NoDup (macros refute2) /\ In 3 (ids guard refute2) /\
  In 3 (keepS [mC] refute2) /\
  ~ In 3 (covered_ids false None [] [] (flatten guard refute2)) /\
  map render_cfg (get_configs [] [] (flatten guard refute2)) = [[]; [65]; [65;59;67;61;67]].  (* "", "A", "A;C=C" *)
Proof.
  split; [cbn; tauto|]. split.
  { cbn. repeat constructor; cbn; intuition discriminate. }
  split; [cbn; auto|]. split; [vm_compute; auto|]. split; [vm_compute; intuition discriminate|]. vm_compute. reflexivity.
Qed.

(* the family of the partial theorem is inhabited by deep trees with #else branches *)
Definition ok_example : forest guard :=
  FGroup (KIfdef, mX)
    (FGroup (KIfndef, mA) (FCode 3 FNil) (TElse (FGroup (KIfDef, mB) (FCode 4 FNil) TEnd (FCode 5 FNil))) (FCode 6 FNil))
    (TElse (FGroup (KIfdef, mC) (FCode 7 FNil) (TElse (FCode 8 FNil)) FNil))
    (FCode 9 FNil).
Lemma ok_example_ok : okf O ok_example /\ NoDup (macros ok_example).
Proof. split; [cbn; intuition discriminate|]. cbn. repeat constructor; cbn; intuition discriminate. Qed.
