int h(int x)
{
    int true = 1;
    int false = 0;
    if (x == true)
        return false;
    return ( true );
}
