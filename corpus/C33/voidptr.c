void take(void *p);
int f(int n)
{
    void *buf;
    const void *q;
    buf = 0;
    q = buf;
    take(buf);
    return q != 0 ? n : 0;
}
