int g(int * restrict a, const int * restrict b)
{
    int restrict = 1;
    *a = *b + restrict;
    return *a;
}
