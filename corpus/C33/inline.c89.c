static inline int k(int x) { return x + 1; }
int restrict = 3;
int m(int inline) { return inline + restrict; }
