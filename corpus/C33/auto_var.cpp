#include <vector>
int n(const std::vector<int>& v)
{
    int s = 0;
    for (auto x : v)
        s += x;
    auto & [a, b] = *(new int[2]);
    register int r = s;
    return r;
}
