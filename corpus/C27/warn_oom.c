#include <stdlib.h>
#include <stdio.h>
void f(void) { char *p = malloc(10); *p = 0; free(p); }
void g(void) { FILE *h = fopen("x", "r"); int c = fgetc(h); (void)c; fclose(h); }
