void foo(int x) {
    if (x >= 0 || x <= 10) {}
}
int bar(int a) { if (a < 0 && a > 10) return 2; return 0; }
