#include <vector>

int pick(std::vector<int> &v, bool reset)
{
    if (reset)
        v.clear();
    int r = v[1];
    if (v.size() == 1) {
        r++;
    }
    return r;
}
