int d1(int i, int reset) { int a[10]; a[0] = 0; if (reset) i = 10; int r = a[i]; if (i == 12) { r++; } return r; }
int d2(int i, int reset) { char buf[4]; buf[0] = 0; if (reset) i = 7; char c = buf[i]; if (i == 4) { c++; } return c; }
int d3(int i, int reset) { int a[5]; a[0] = 0; if (reset) i = -1; int r = a[i]; if (i == -2) { r++; } return r; }
int d4(int n, int reset) { int a[8]; a[0] = 0; if (reset) n = 8; a[n] = 1; if (n >= 9) { return 1; } return a[0]; }
