#include <vector>
void f(std::vector<int> &v) { for (auto it = v.begin(); it != v.end(); ++it) { if (*it == 1) v.erase(it); } }
