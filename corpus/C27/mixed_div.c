int c1(int x, int reset) { if (reset) x = 0; int r = 100 / x; if (x == 0) { r++; } return r; }
int c2(int x, int reset) { if (reset) x = 0; int r = 100 % x; if (x == 0) { r++; } return r; }
int c3(int x, int reset) { int d = x; if (reset) d = 0; int r = 7 / d; if (d != 0) { r++; } return r; }
