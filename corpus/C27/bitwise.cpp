int f(int a) { if (a & 0x10 == 0) return 1; return 0; }
