#include <cmath>
double f(double d = 0.0) {
    return log10(d);
}
