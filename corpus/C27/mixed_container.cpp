#include <vector>
#include <string>
int a1(std::vector<int> &v, bool reset) { if (reset) v.clear(); int r = v[1]; if (v.size() == 1) { r++; } return r; }
int a2(std::vector<int> &v, bool reset) { if (reset) v.clear(); int r = v.at(2); if (v.size() == 2) { r++; } return r; }
int a3(std::vector<int> &v, bool reset) { if (reset) v.clear(); int r = v.front(); if (v.empty()) { r++; } return r; }
int a4(std::vector<int> &v, bool reset) { if (reset) v.clear(); int r = v.back(); if (v.size() == 0) { r++; } return r; }
char a5(std::string &s, bool reset) { if (reset) s.clear(); char c = s[3]; if (s.size() == 2) { c++; } return c; }
int a6(bool reset) { std::vector<int> v; if (!reset) v.push_back(1); int r = v[1]; if (v.size() == 1) { r++; } return r; }
