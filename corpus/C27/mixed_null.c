int b1(int *p, int reset) { if (reset) p = 0; int r = *p; if (p) { r++; } return r; }
int b2(int *p, int reset) { if (reset) p = 0; int r = p[1]; if (p != 0) { r++; } return r; }
struct S { int m; };
int b3(struct S *s, int reset) { if (reset) s = 0; int r = s->m; if (!s) { r++; } return r; }
int b4(int *p) { int *q = 0; if (p) q = p; int r = *q; if (q == 0) { r++; } return r; }
