(* Generic driver for an extracted model: I/O only.
   Reads hex-field lines, calls Model.run : n list list -> n list list,
   prints hex-field lines. Conversions int <-> Coq N are the only glue. *)
open Model

let rec pos_of_int (i : int) : positive =
  if i = 1 then XH
  else if i land 1 = 1 then XI (pos_of_int (i lsr 1))
  else XO (pos_of_int (i lsr 1))

let n_of_int (i : int) : n = if i = 0 then N0 else Npos (pos_of_int i)

let rec int_of_pos (p : positive) : int =
  match p with XH -> 1 | XO q -> 2 * int_of_pos q | XI q -> 2 * int_of_pos q + 1

let int_of_n (x : n) : int = match x with N0 -> 0 | Npos p -> int_of_pos p

let unhex (h : string) : n list =
  if h = "-" then []
  else begin
    let v c = if c >= 'a' then Char.code c - 87 else Char.code c - 48 in
    let r = ref [] in
    let len = String.length h / 2 in
    for i = len - 1 downto 0 do
      r := n_of_int (v h.[2 * i] * 16 + v h.[2 * i + 1]) :: !r
    done;
    !r
  end

let hex (s : n list) : string =
  if s = [] then "-"
  else begin
    let b = Buffer.create 16 in
    List.iter (fun c -> Buffer.add_string b (Printf.sprintf "%02x" (int_of_n c land 255))) s;
    Buffer.contents b
  end

let () =
  try
    while true do
      let line = input_line stdin in
      let fields = List.filter (fun s -> s <> "") (String.split_on_char ' ' line) in
      let res = run (List.map unhex fields) in
      (match res with
       | [] -> print_string "~"
       | _ -> print_string (String.concat " " (List.map hex res)));
      print_newline ()
    done
  with End_of_file -> ()
