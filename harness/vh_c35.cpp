// Correspondence harness for the clang-import declaration map (C35).
// lib/clangimport.cpp keeps clangimport::Data private to its translation unit, so the harness
// compiles the *same source file* a second time under another namespace name (no copy: the
// #include below reads lib/clangimport.cpp of the tree under test) and drives Data directly.
// Decodes a case, calls enumDecl / funcDecl / scopeDecl / varDecl / ref, prints what the
// tokens carry. No logic of its own.
#include "vh_common.h"

#include <algorithm>
#include <cctype>
#include <cstring>
#include <iostream>
#include <iterator>
#include <list>
#include <map>
#include <memory>
#include <numeric>
#include <set>
#include <sstream>
#include <stack>
#include <string>
#include <utility>
#include <vector>

#define private public
#define protected public
#include "clangimport.h"
#include "color.h"
#include "errorlogger.h"
#include "errortypes.h"
#include "mathlib.h"
#include "settings.h"
#include "standards.h"
#include "symboldatabase.h"
#include "token.h"
#include "tokenize.h"
#include "tokenlist.h"
#include "utils.h"
#include "vfvalue.h"

namespace vh_clangimport { void parseClangAstDump(Tokenizer &tokenizer, std::istream &f); }
#define clangimport vh_clangimport
#include "clangimport.cpp"
#undef clangimport
#undef private
#undef protected

namespace {
    class QuietLogger : public ErrorLogger {
    public:
        void reportOut(const std::string& /*outmsg*/, Color /*c*/) override {}
        void reportErr(const ErrorMessage& /*msg*/) override {}
        void reportMetric(const std::string& /*metric*/) override {}
    };
}

// in:  n  then triples  kind("V"|"F"|"E"|"S"|"R")  address  token
// out: per token: varId  variable's name token  function's tokenDef  enumerator's token ("" = none),
//      then mVarId and the number of tokens waiting in mNotFound
VH_CMD(decl) {
    static const Settings settings;
    QuietLogger logger;
    Tokenizer tokenizer{TokenList{settings, Standards::Language::C}, logger};
    tokenizer.createSymbolDatabase();
    auto* symbolDatabase = const_cast<SymbolDatabase*>(tokenizer.getSymbolDatabase());
    vh_clangimport::Data data(settings, *symbolDatabase);

    const TokenList list{settings, Standards::Language::C};
    const int n = static_cast<int>(vhToLL(a.at(0)));
    std::vector<std::unique_ptr<Token>> toks;
    for (int i = 0; i < n; i++) {
        auto tokensFrontBack = std::make_shared<TokensFrontBack>();
        toks.emplace_back(new Token(list, std::move(tokensFrontBack)));
        toks.back()->str("t" + std::to_string(i));
    }
    std::map<int, std::unique_ptr<Variable>> vars;
    std::map<int, std::unique_ptr<Function>> funcs;
    std::map<int, std::unique_ptr<Enumerator>> enums;
    for (std::size_t i = 1; i + 2 < a.size(); i += 3) {
        const std::string& addr = a[i + 1];
        const int t = static_cast<int>(vhToLL(a[i + 2]));
        Token* tok = toks.at(t).get();
        if (a[i] == "V") {
            if (!vars.count(t))
                vars[t].reset(new Variable(tok, "int", tok, tok, 0, AccessControl::Public, nullptr, nullptr));
            data.varDecl(addr, tok, vars[t].get());
        } else if (a[i] == "F") {
            if (!funcs.count(t))
                funcs[t].reset(new Function(tok, "int ()"));
            data.funcDecl(addr, tok, funcs[t].get());
        } else if (a[i] == "E") {
            if (!enums.count(t)) {
                enums[t].reset(new Enumerator(nullptr));
                enums[t]->name = tok;
            }
            data.enumDecl(addr, tok, enums[t].get());
        } else if (a[i] == "S") {
            // scopeDecl only stores the pointer
            data.scopeDecl(addr, reinterpret_cast<Scope*>(&data));
        } else {
            data.ref(addr, tok);
        }
    }
    auto idx = [&](const Token* t) -> std::string {
        if (!t) return "";
        for (int i = 0; i < n; i++) if (toks[i].get() == t) return std::to_string(i);
        return "?";
    };
    Fields out;
    for (int i = 0; i < n; i++) {
        const Token* t = toks[i].get();
        out.push_back(std::to_string(t->varId()));
        out.push_back(t->variable() ? idx(t->variable()->nameToken()) : std::string());
        out.push_back(t->function() ? idx(t->function()->tokenDef) : std::string());
        out.push_back(t->enumerator() ? idx(t->enumerator()->name) : std::string());
    }
    out.push_back(std::to_string(data.mVarId));
    std::size_t waiting = 0;
    for (const auto& e : data.mNotFound) waiting += e.second.size();
    out.push_back(std::to_string(waiting));
    // tokens must not outlive the objects they point to in a surprising order
    return out;
}

// in:  lang ("c"|"cpp")  AST dump text (as clang -Xclang -ast-dump prints it)
// out: per token four fields: str  varId  position of the variable's name token  position of the function's tokenDef
//      (the real clangimport::parseClangAstDump of the library, not the re-included copy)
VH_CMD(import) {
    static const Settings settings;
    QuietLogger logger;
    const bool cpp = a.at(0) == "cpp";
    TokenList tokenlist{settings, cpp ? Standards::Language::CPP : Standards::Language::C};
    tokenlist.appendFileIfNew(cpp ? "t.cpp" : "t.c");
    Tokenizer tokenizer(std::move(tokenlist), logger);
    std::istringstream ast(a.at(1));
    clangimport::parseClangAstDump(tokenizer, ast);
    std::map<const Token*, long long> pos;
    long long k = 0;
    for (const Token* t = tokenizer.tokens(); t; t = t->next()) pos[t] = k++;
    auto at = [&](const Token* t) -> std::string {
        if (!t) return "";
        auto it = pos.find(t);
        return it == pos.end() ? "?" : std::to_string(it->second);
    };
    Fields out;
    for (const Token* t = tokenizer.tokens(); t; t = t->next()) {
        out.push_back(t->str());
        out.push_back(std::to_string(t->varId()));
        out.push_back(t->variable() ? at(t->variable()->nameToken()) : std::string());
        out.push_back(t->function() ? at(t->function()->tokenDef) : std::string());
    }
    return out;
}

VH_MAIN()
