// Correspondence harness for the dump model (C14).
// Decodes a case, calls the real code, prints the result. No logic of its own.
//   ast   : real Token objects, a sequence of astOperand1 / astOperand2 / astTop(tok) calls
//   links : real Tokenizer::createLinks on a token list built with TokenList::addtoken
//   toxml : ErrorLogger::toxml
#include "vh_common.h"

#include <memory>

#define private public
#define protected public
#include "color.h"
#include "errorlogger.h"
#include "errortypes.h"
#include "settings.h"
#include "standards.h"
#include "token.h"
#include "tokenize.h"
#include "tokenlist.h"
#undef private
#undef protected

namespace {
    class QuietLogger : public ErrorLogger {
    public:
        void reportOut(const std::string& /*outmsg*/, Color /*c*/) override {}
        void reportErr(const ErrorMessage& /*msg*/) override {}
        void reportMetric(const std::string& /*metric*/) override {}
    };
}

// in:  n  then triples  kind("1"|"2"|"T")  p  c("" = nullptr)
// out: status("ok"|"cyc")  number of completed calls  then per token: parent op1 op2 ("" = nullptr)
VH_CMD(ast) {
    static const Settings settings;
    const TokenList list{settings, Standards::Language::C};
    const int n = static_cast<int>(vhToLL(a.at(0)));
    std::vector<std::unique_ptr<Token>> toks;
    for (int i = 0; i < n; i++) {
        auto tokensFrontBack = std::make_shared<TokensFrontBack>();
        toks.emplace_back(new Token(list, std::move(tokensFrontBack)));
        toks.back()->str("t" + std::to_string(i));
    }
    auto at = [&](const std::string& s) -> Token* { return s.empty() ? nullptr : toks.at(vhToLL(s)).get(); };
    std::string status = "ok";
    long long done = 0;
    for (std::size_t i = 1; i + 2 < a.size() + 0 && status == "ok"; i += 3) {
        Token* p = at(a[i + 1]);
        Token* c = at(a[i + 2]);
        try {
            if (a[i] == "1") p->astOperand1(c);
            else if (a[i] == "2") p->astOperand2(c);
            else p->astTop(c);
            done++;
        } catch (const InternalError& e) {
            status = (e.errorMessage.find("cyclic") != std::string::npos) ? "cyc" : "exc";
        }
    }
    auto idx = [&](const Token* t) -> std::string {
        if (!t) return "";
        for (int i = 0; i < n; i++) if (toks[i].get() == t) return std::to_string(i);
        return "?";
    };
    Fields out{status, std::to_string(done)};
    for (int i = 0; i < n; i++) {
        out.push_back(idx(toks[i]->astParent()));
        out.push_back(idx(toks[i]->astOperand1()));
        out.push_back(idx(toks[i]->astOperand2()));
    }
    return out;
}

// in:  token strings
// out: "O" then per token the position of its link ("" = none)  |  "U" position of the token
//      given to Tokenizer::unmatchedToken
VH_CMD(links) {
    static const Settings settings;
    QuietLogger logger;
    Tokenizer tokenizer{TokenList{settings, Standards::Language::CPP}, logger};
    tokenizer.list.appendFileIfNew("test.cpp");
    for (std::size_t i = 0; i < a.size(); i++)
        tokenizer.list.addtoken(a[i], 1, static_cast<int>(i) + 1, 0);
    std::map<const Token*, long long> pos;
    long long k = 0;
    for (const Token* t = tokenizer.list.front(); t; t = t->next()) pos[t] = k++;
    try {
        tokenizer.createLinks();
    } catch (const InternalError& e) {
        if (e.type != InternalError::SYNTAX || e.errorMessage.compare(0, 9, "Unmatched") != 0) throw;
        return {"U", std::to_string(pos.at(e.token))};
    }
    Fields out{"O"};
    for (const Token* t = tokenizer.list.front(); t; t = t->next())
        out.push_back(t->link() ? std::to_string(pos.at(t->link())) : std::string());
    return out;
}

VH_CMD(toxml) {
    return {ErrorLogger::toxml(a.empty() ? std::string() : a.at(0))};
}

VH_MAIN()
