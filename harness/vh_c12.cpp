// Correspondence harness for C12 (configuration selection).
// Decodes a case, renders the directive fields as source lines, calls the real
// Preprocessor::getConfigs. No logic of its own.
#include "vh_common.h"

#include "errorlogger.h"
#include "preprocessor.h"
#include "settings.h"
#include "standards.h"

#include <simplecpp.h>

#include <set>

namespace {
    class NullLogger : public ErrorLogger {
    public:
        void reportOut(const std::string&, Color) override {}
        void reportErr(const ErrorMessage&) override {}
        void reportProgress(const std::string&, const char[], const std::size_t) override {}
        void reportMetric(const std::string&) override {}
    };
}

// one directive per field (same encoding as coq/theories/Cfg/Run.v dir_of)
static std::string renderDirective(const std::string& f) {
    const std::string m = f.substr(1);
    switch (f.at(0)) {
    case 'd': return "#ifdef " + m + "\n";
    case 'n': return "#ifndef " + m + "\n";
    case 'D': return "#if defined(" + m + ")\n";
    case 'N': return "#if !defined(" + m + ")\n";
    case 'E': return "#elif defined(" + m + ")\n";
    case 'F': return "#elif !defined(" + m + ")\n";
    case 'e': return "#else\n";
    case 'x': return "#endif\n";
    case 'c': return "{ int vv[1]; vv[" + m + "]=0; }\n";
    default: throw std::runtime_error("bad directive field");
    }
}

// userD(names ';'-separated) userU(names ';'-separated) directive...
VH_CMD(configs) {
    Settings settings;
    {
        std::istringstream d(a.at(0));
        std::string n;
        while (std::getline(d, n, ';')) {
            if (n.empty()) continue;
            if (!settings.userDefines.empty()) settings.userDefines += ';';
            settings.userDefines += n + "=1";       // as cmdlineparser does for -Dn
        }
        std::istringstream u(a.at(1));
        while (std::getline(u, n, ';'))
            if (!n.empty()) settings.userUndefs.insert(n);
    }
    std::string code = "void f() {\n";
    for (std::size_t i = 2; i < a.size(); i++)
        code += renderDirective(a[i]);
    code += "}\n";
    NullLogger logger;
    std::vector<std::string> files;
    simplecpp::OutputList outputList;
    simplecpp::TokenList tokens(code.data(), code.size(), files, "test.c", &outputList);
    Preprocessor preprocessor(tokens, settings, logger, Standards::Language::C);
    if (!preprocessor.loadFiles(files))
        return {"!loadFiles"};
    preprocessor.removeComments();
    const std::set<std::string> configs = preprocessor.getConfigs();
    return Fields(configs.begin(), configs.end());
}

VH_MAIN()
