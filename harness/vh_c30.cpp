// Correspondence harness for the library <valid> model (C30).
// Decodes a case, builds a Library from an in-memory cfg document, calls the
// real function, prints the result. No logic of its own.
#include "vh_common.h"

#include "library.h"
#include "mathlib.h"
#include "settings.h"
#include "standards.h"
#include "token.h"
#include "tokenlist.h"

#include "xml.h"

#include <cstring>
#include <memory>

// Library declares `friend struct LibraryHelper; // for testing`
struct LibraryHelper {
    static bool compliant(const char* p) { return Library::isCompliantValidationExpression(p); }
    static Library::Error load(Library& lib, const tinyxml2::XMLDocument& doc) { return lib.load(doc); }
};

static std::string errName(Library::ErrorCode e) {
    switch (e) {
    case Library::ErrorCode::OK: return "OK";
    case Library::ErrorCode::FILE_NOT_FOUND: return "FILE_NOT_FOUND";
    case Library::ErrorCode::BAD_XML: return "BAD_XML";
    case Library::ErrorCode::UNKNOWN_ELEMENT: return "UNKNOWN_ELEMENT";
    case Library::ErrorCode::MISSING_ATTRIBUTE: return "MISSING_ATTRIBUTE";
    case Library::ErrorCode::BAD_ATTRIBUTE_VALUE: return "BAD_ATTRIBUTE_VALUE";
    case Library::ErrorCode::UNSUPPORTED_FORMAT: return "UNSUPPORTED_FORMAT";
    case Library::ErrorCode::DUPLICATE_PLATFORM_TYPE: return "DUPLICATE_PLATFORM_TYPE";
    case Library::ErrorCode::PLATFORM_TYPE_REDEFINED: return "PLATFORM_TYPE_REDEFINED";
    case Library::ErrorCode::DUPLICATE_DEFINE: return "DUPLICATE_DEFINE";
    }
    return "?";
}

// one function foo with one argument whose children are given verbatim
struct Loaded {
    Library lib;
    Settings settings;
    std::unique_ptr<TokenList> list;
    std::string err;   // empty = loaded
    const Token* ftok() const { return list->front(); }
};

static std::unique_ptr<Loaded> loadArg(const std::string& argChildren, bool cpp) {
    std::unique_ptr<Loaded> l(new Loaded);
    const std::string xml = "<?xml version=\"1.0\"?>\n<def>\n<function name=\"foo\"><arg nr=\"1\">" + argChildren + "</arg></function>\n</def>";
    tinyxml2::XMLDocument doc;
    if (tinyxml2::XML_SUCCESS != doc.Parse(xml.data(), xml.size())) {
        l->err = "XML";
        return l;
    }
    const Library::Error e = LibraryHelper::load(l->lib, doc);
    if (e.errorcode != Library::ErrorCode::OK) {
        l->err = errName(e.errorcode);
        return l;
    }
    l->list.reset(new TokenList(l->settings, cpp ? Standards::Language::CPP : Standards::Language::C));
    const char code[] = "foo(a);";
    if (!l->list->createTokensFromString(code)) {
        l->err = "TOKENS";
        return l;
    }
    l->list->front()->next()->astOperand1(l->list->front());
    return l;
}

// compliant <text>  ->  1/0          (Library::isCompliantValidationExpression)
VH_CMD(compliant) {
    const std::string s = a.at(0);
    return {vhBool(LibraryHelper::compliant(s.c_str()))};
}

// loadvalid <text>  ->  OK / error code name   (the <valid> loading path)
VH_CMD(loadvalid) {
    const auto l = loadArg("<valid>" + a.at(0) + "</valid>", true);
    return {l->err.empty() ? "OK" : l->err};
}

// intvalid <text> <z> <lang c|cpp>  ->  1/0, or E <code> when loading is refused
VH_CMD(intvalid) {
    const auto l = loadArg("<valid>" + a.at(0) + "</valid>", a.at(2) == "cpp");
    if (!l->err.empty())
        return {"E", l->err};
    const MathLib::bigint z = static_cast<MathLib::bigint>(std::strtoll(a.at(1).c_str(), nullptr, 10));
    return {vhBool(l->lib.isIntArgValid(l->ftok(), 1, z, l->settings))};
}

// floatvalid <text> <double as decimal/scientific text>  ->  1/0, or E <code>
VH_CMD(floatvalid) {
    const auto l = loadArg("<valid>" + a.at(0) + "</valid>", true);
    if (!l->err.empty())
        return {"E", l->err};
    const double d = std::strtod(a.at(1).c_str(), nullptr);
    return {vhBool(l->lib.isFloatArgValid(l->ftok(), 1, d, l->settings))};
}

// argflags <child>...   child = n | b | u | o | v<text>
//   ->  notnull notbool notuninit(indirect 0) validtext , or E <code>
VH_CMD(argflags) {
    std::string xml;
    for (const std::string& c : a) {
        if (c == "n") xml += "<not-null/>";
        else if (c == "b") xml += "<not-bool/>";
        else if (c == "u") xml += "<not-uninit/>";
        else if (!c.empty() && c[0] == 'v') xml += "<valid>" + c.substr(1) + "</valid>";
        else xml += "<strz/>";
    }
    const auto l = loadArg(xml, true);
    if (!l->err.empty())
        return {"E", l->err};
    return {vhBool(l->lib.isnullargbad(l->ftok(), 1)), vhBool(l->lib.isboolargbad(l->ftok(), 1)),
            vhBool(l->lib.isuninitargbad(l->ftok(), 1, 0)), l->lib.validarg(l->ftok(), 1)};
}

VH_MAIN()
