// Correspondence harness for the report model (C26).
// Decodes a case, builds the ErrorMessage, calls the real code, prints the result.
#include "vh_common.h"

#include <list>
#include <set>
#include <unordered_map>

#define private public
#include "errorlogger.h"
#undef private
#include "cppcheck.h"
#include "errortypes.h"
#include "sarifreport.h"
#include "utils.h"

static Severity sevOf(const std::string& s) {
    switch (vhToLL(s)) {
    case 1: return Severity::error;
    case 2: return Severity::warning;
    case 3: return Severity::style;
    case 4: return Severity::performance;
    case 5: return Severity::portability;
    case 6: return Severity::information;
    case 7: return Severity::debug;
    case 8: return Severity::internal;
    default: return Severity::none;
    }
}

// id guideline classification sev cwe hash incon short verbose remark file0 symbols nlocs (file orig line col info)*
static ErrorMessage takeMsg(const Fields& a, std::size_t& i) {
    ErrorMessage m;
    m.id = a.at(i++);
    m.guideline = a.at(i++);
    m.classification = a.at(i++);
    m.severity = sevOf(a.at(i++));
    m.cwe.id = static_cast<unsigned short>(vhToLL(a.at(i++)));
    m.hash = static_cast<std::size_t>(std::strtoull(a.at(i++).c_str(), nullptr, 10));
    m.certainty = a.at(i++) == "1" ? Certainty::inconclusive : Certainty::normal;
    m.mShortMessage = a.at(i++);
    m.mVerboseMessage = a.at(i++);
    m.remark = a.at(i++);
    m.file0 = a.at(i++);
    m.mSymbolNames = a.at(i++);
    const long long n = vhToLL(a.at(i++));
    for (long long k = 0; k < n; k++) {
        ErrorMessage::FileLocation l("", 0, 0);
        l.mFileName = a.at(i++);      // stored as given: Path::simplifyPath is C31's subject
        l.mOrigFileName = a.at(i++);
        l.line = static_cast<int>(vhToLL(a.at(i++)));
        l.column = static_cast<unsigned int>(vhToLL(a.at(i++)));
        l.mInfo = a.at(i++);
        m.callStack.push_back(std::move(l));
    }
    return m;
}

VH_CMD(far) {
    std::string s = a.at(2);
    findAndReplace(s, a.at(0), a.at(1));
    return {s};
}

VH_CMD(static) {
    std::string t = a.at(1);
    substituteTemplateFormatStatic(t, a.at(0) == "1");
    return {t};
}

VH_CMD(staticloc) {
    std::string t = a.at(1);
    substituteTemplateLocationStatic(t, a.at(0) == "1");
    return {t};
}

VH_CMD(fix) {
    return {ErrorMessage::fixInvalidChars(a.at(0))};
}

VH_CMD(toxml) {
    return {ErrorLogger::toxml(a.at(0))};
}

VH_CMD(tostr) {
    std::size_t i = 3;
    const ErrorMessage m = takeMsg(a, i);
    return {"1", m.toString(a.at(0) == "1", a.at(1), a.at(2))};
}

VH_CMD(xml) {
    std::size_t i = 0;
    const ErrorMessage m = takeMsg(a, i);
    return {m.toXML()};
}

VH_CMD(header) {
    return {ErrorMessage::getXMLHeader("", 2), ErrorMessage::getXMLFooter(2), CppCheck::version()};
}

VH_CMD(sarif) {
    // a[0] (version) is for the model only: the implementation uses CppCheck::version()
    std::size_t i = 1;
    const long long n = vhToLL(a.at(i++));
    SarifReport r;
    for (long long k = 0; k < n; k++)
        r.addFinding(takeMsg(a, i));
    return {r.serialize("")};
}

VH_CMD(critical) {
    return {vhBool(ErrorLogger::isCriticalErrorId(a.at(0)))};
}

VH_MAIN()
