// Correspondence harness for the expression-tree model (C07).
// Decodes a case (language, declarations, one statement), runs the real Tokenizer
// (simplifyTokens1: tokenizer passes, prepareTernaryOpForAST, TokenList::createAst,
// validateAst, ...) and prints, for every token of the statement, its string and the
// positions of astOperand1 / astOperand2 / astParent. No logic of its own.
#include "vh_common.h"

#include "color.h"
#include "errorlogger.h"
#include "errortypes.h"
#include "settings.h"
#include "standards.h"
#include "token.h"
#include "tokenize.h"
#include "tokenlist.h"

#include <map>

namespace {
    class QuietLogger : public ErrorLogger {
    public:
        std::string ids;
        void reportOut(const std::string& /*outmsg*/, Color /*c*/) override {}
        void reportErr(const ErrorMessage& msg) override {
            if (msg.severity == Severity::error) {
                if (!ids.empty()) ids += ',';
                ids += msg.id;
            }
        }
        void reportMetric(const std::string& /*metric*/) override {}
    };
}

// in:  lang ("c"|"cpp")  declarations  statement-text (without the final ';')
// out: "ok" then one field per token between '{' and '}' of  void vhf ( ) { <stmt> ; }
//      field = op1,op2,parent,flags,str   (positions relative to the first token, -1 = none;
//      flags: n name, v varId!=0, d number, l has link)
VH_CMD(ast) {
    const bool cpp = a.at(0) == "cpp";
    const std::string code = a.at(1) + "\nvoid vhf ( ) { " + a.at(2) + " ; }\n";
    static const Settings settings;
    QuietLogger logger;
    Tokenizer tokenizer{TokenList{settings, cpp ? Standards::Language::CPP : Standards::Language::C}, logger};
    tokenizer.list.appendFileIfNew(cpp ? "test.cpp" : "test.c");
    if (!tokenizer.list.createTokensFromBuffer(code.data(), code.size()))
        return {"rej", "createTokens"};
    if (!tokenizer.simplifyTokens1(""))
        return {"rej", "simplifyTokens1"};
    if (!logger.ids.empty())
        return {"rej", logger.ids};
    const Token* start = nullptr;
    for (const Token* t = tokenizer.tokens(); t; t = t->next()) {
        if (t->str() == "vhf" && Token::simpleMatch(t->next(), "( ) {"))
            start = t->tokAt(3);
    }
    if (!start || !start->link())
        return {"rej", "nobody"};
    const Token* end = start->link();
    std::map<const Token*, int> pos;
    int n = 0;
    for (const Token* t = start->next(); t && t != end; t = t->next())
        pos[t] = n++;
    auto at = [&](const Token* t) -> std::string {
        if (!t) return "-1";
        auto it = pos.find(t);
        return it == pos.end() ? "-2" : std::to_string(it->second);
    };
    Fields out{"ok"};
    for (const Token* t = start->next(); t && t != end; t = t->next()) {
        std::string flags;
        if (t->isName()) flags += 'n';
        if (t->varId() != 0) flags += 'v';
        if (t->isNumber()) flags += 'd';
        if (t->link()) flags += 'l';
        out.push_back(at(t->astOperand1()) + "," + at(t->astOperand2()) + "," + at(t->astParent()) + "," + flags + "," + t->str());
    }
    return out;
}

VH_MAIN()
