// Correspondence harness for the compilation-database import model (C32).
// Decodes a case, calls the real code, prints the result. No logic of its own.
#include "vh_common.h"

#include <list>
#include <map>
#include <set>
#include <sstream>
#include <string>
#include <vector>

#define private public
#include "importproject.h"
#undef private
#include "filesettings.h"
#include "path.h"
#include "standards.h"

class VhImporter : public ImportProject {
public:
    using ImportProject::collectArgs;
    using ImportProject::fsSetDefines;
    using ImportProject::fsSetIncludePaths;
    using ImportProject::importCompileCommands;
};

template<class C>
static void lenc(Fields& out, const C& c) {
    out.push_back(vhNum(static_cast<long long>(c.size())));
    for (const std::string& s : c) out.push_back(s);
}

static void fsOut(Fields& out, const FileSettings& fs) {
    lenc(out, fs.includePaths);
    lenc(out, fs.systemIncludePaths);
    out.push_back(fs.defines);
    lenc(out, fs.undefs);
    out.push_back(fs.standard);
}

// cmd -> 1 args... | Q
VH_CMD(collect) {
    std::vector<std::string> args;
    const std::string err = VhImporter::collectArgs(a.at(0), args);
    if (!err.empty()) return {"Q"};
    Fields out{"1"};
    for (const std::string& s : args) out.push_back(s);
    return out;
}

// args... -> 1 incs sys defines undefs std
VH_CMD(parse) {
    FileSettings fs{"a.c", Standards::Language::None, 0};
    const std::vector<std::string> args(a.begin(), a.end());
    ImportProject::parseArgs(fs, args);
    Fields out{"1"};
    fsOut(out, fs);
    return out;
}

VH_CMD(defs) {
    FileSettings fs{"a.c", Standards::Language::None, 0};
    VhImporter::fsSetDefines(fs, a.at(0));
    return {fs.defines};
}

// base paths... -> 1 result...
VH_CMD(incs) {
    FileSettings fs{"a.c", Standards::Language::None, 0};
    std::map<std::string, std::string, cppcheck::stricmp> variables;
    const std::list<std::string> in(a.begin() + 1, a.end());
    VhImporter::fsSetIncludePaths(fs, a.at(0), in, variables);
    Fields out{"1"};
    for (const std::string& s : fs.includePaths) out.push_back(s);
    return out;
}

VH_CMD(simp) {
    return {"1", Path::simplifyPath(a.at(0))};
}

// json -> per entry: path incs sys defines undefs std ; or Q <error>
VH_CMD(json) {
    VhImporter imp;
    std::istringstream istr(a.at(0));
    const bool ok = imp.importCompileCommands(istr);
    if (!ok) return {"Q", imp.errors.empty() ? std::string() : imp.errors.back()};
    Fields out{"1"};
    for (const FileSettings& fs : imp.fileSettings) {
        out.push_back(fs.filename());
        fsOut(out, fs);
    }
    return out;
}

VH_MAIN()
