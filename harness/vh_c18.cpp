// Correspondence harness for the build-dir cache key (C18, C19).
// Decodes a case, calls the real code, prints the result. No logic of its own.
#include "vh_common.h"

#include <cstdint>
#include <fstream>
#include <list>
#include <sstream>
#include <unistd.h>

#define private public
#define protected public
#include "analyzerinfo.h"
#include "cppcheck.h"
#include "preprocessor.h"
#undef private
#undef protected
#include "errorlogger.h"
#include "filesettings.h"
#include "settings.h"
#include "standards.h"
#include "suppressions.h"
#include "version.h"

#include <simplecpp.h>

namespace {
    class NullLogger : public ErrorLogger {
    public:
        void reportOut(const std::string&, Color) override {}
        void reportErr(const ErrorMessage&) override {}
        void reportProgress(const std::string&, const char[], const std::size_t) override {}
        void reportMetric(const std::string&) override {}
    };

    void dumpTokens(const simplecpp::TokenList& l, Fields& out) {
        Fields t;
        for (const simplecpp::Token* tok = l.cfront(); tok; tok = tok->next) {
            if (tok->comment)
                continue;
            t.push_back(tok->str());
            t.push_back(std::to_string(tok->location.line));
            t.push_back(std::to_string(tok->location.col));
        }
        out.push_back(std::to_string(t.size() / 3));
        out.insert(out.end(), t.begin(), t.end());
    }
}

// std::hash<std::string> of the given bytes
VH_CMD(stdhash) {
    return {std::to_string(std::hash<std::string>{}(a.at(0)))};
}

VH_CMD(version) {
    return {CPPCHECK_VERSION_STRING};
}

// calchash toolinfo dir mainfile incdir* : Preprocessor::calculateHash on a file on disk (headers are loaded
// from disk as cppcheck does); prints the hash and the token streams that entered it
VH_CMD(calchash) {
    const std::string& toolinfo = a.at(0);
    const std::string& dir = a.at(1);
    const std::string& file = a.at(2);
    if (chdir(dir.c_str()) != 0)
        return {"!chdir"};
    Settings settings;
    for (std::size_t k = 3; k < a.size(); k++)
        settings.includePaths.push_back(a[k] + "/");
    NullLogger logger;
    std::vector<std::string> files;
    simplecpp::OutputList outputList;
    simplecpp::TokenList tokens1(file, files, &outputList);
    Preprocessor preprocessor(tokens1, settings, logger, Standards::Language::C);
    if (!preprocessor.loadFiles(files))
        return {"!load"};
    preprocessor.removeComments();
    Fields out;
    out.push_back(std::to_string(preprocessor.calculateHash(toolinfo)));
    dumpTokens(preprocessor.mTokens, out);
    Fields hdrs;
    std::size_t n = 0;
    for (const auto& fd : preprocessor.mFileCache) {
        hdrs.push_back(fd->filename);
        dumpTokens(fd->tokens, hdrs);
        n++;
    }
    out.push_back(std::to_string(n));
    out.insert(out.end(), hdrs.begin(), hdrs.end());
    return out;
}

// filestxt files* : AnalyzerInformation::getFilesTxt
VH_CMD(filestxt) {
    const std::list<std::string> files(a.begin(), a.end());
    return {AnalyzerInformation::getFilesTxt(files, {})};
}

// lookup src files* : writeFilesTxt into a scratch build dir, then getAnalyzerInfoFile
VH_CMD(lookup) {
    struct ScratchDir {
        std::string d;
        ScratchDir() {
            char tmpl[] = "/tmp/vh_c18_XXXXXX";
            const char* r = mkdtemp(tmpl);
            d = r ? r : "/tmp";
        }
        ~ScratchDir() {
            if (d != "/tmp")
                rmdir(d.c_str());
        }
    };
    static const ScratchDir scratch;
    const std::string& dir = scratch.d;
    const std::list<std::string> files(a.begin() + 1, a.end());
    AnalyzerInformation::writeFilesTxt(dir, files, {});
    std::string r = AnalyzerInformation::getAnalyzerInfoFile(dir, a.at(0), "", 0);
    std::remove((dir + "/files.txt").c_str());
    if (r.compare(0, dir.size() + 1, dir + "/") == 0)
        r = r.substr(dir.size() + 1);
    return {r};
}

// toolhash <24 option fields> : CppCheck::calculateHash with an empty token list
// fields: product warning style performance portability information userDefines checkConfiguration force
//         maxConfigs checkLevel addonName addonArgs premiumArgs nsupp (id file line)* inconclusive unusedFunction
//         missingInclude userUndefs includePaths std lang platform libraries filePath
VH_CMD(toolhash) {
    std::size_t i = 0;
    Settings s;
    Suppressions supprs;
    s.cppcheckCfgProductName = a.at(i++);
    s.severity.setEnabled(Severity::warning, a.at(i++) == "1");
    s.severity.setEnabled(Severity::style, a.at(i++) == "1");
    s.severity.setEnabled(Severity::performance, a.at(i++) == "1");
    s.severity.setEnabled(Severity::portability, a.at(i++) == "1");
    s.severity.setEnabled(Severity::information, a.at(i++) == "1");
    s.userDefines = a.at(i++);
    s.checkConfiguration = a.at(i++) == "1";
    s.force = a.at(i++) == "1";
    s.maxConfigsOption = static_cast<int>(vhToLL(a.at(i++)));
    s.checkLevel = static_cast<Settings::CheckLevel>(vhToLL(a.at(i++)));
    const std::string addonName = a.at(i++);
    const std::string addonArgs = a.at(i++);
    if (!addonName.empty()) {
        AddonInfo ai;
        ai.name = addonName;
        ai.args = addonArgs;
        s.addonInfos.push_back(ai);
    }
    s.premiumArgs = a.at(i++);
    const long long ns = vhToLL(a.at(i++));
    for (long long k = 0; k < ns; k++) {
        SuppressionList::Suppression sp;
        sp.errorId = a.at(i++);
        sp.fileName = a.at(i++);
        sp.lineNumber = static_cast<int>(vhToLL(a.at(i++)));
        supprs.nomsg.addSuppression(sp);
    }
    s.certainty.setEnabled(Certainty::inconclusive, a.at(i++) == "1");
    s.checks.setEnabled(Checks::unusedFunction, a.at(i++) == "1");
    s.checks.setEnabled(Checks::missingInclude, a.at(i++) == "1");
    if (!a.at(i).empty())
        s.userUndefs.insert(a.at(i));
    i++;
    if (!a.at(i).empty())
        s.includePaths.push_back(a.at(i));
    i++;
    if (!a.at(i).empty())
        s.standards.setStd(a.at(i));
    i++;
    const std::string lang = a.at(i++);
    const Standards::Language fileLang = lang == "c++" ? Standards::Language::CPP : Standards::Language::C;
    const std::string platform = a.at(i++);
    if (!platform.empty()) {
        std::string err;
        s.platform.set(platform, err, {});
    }
    if (!a.at(i).empty())
        s.libraries.push_back(a.at(i));
    i++;
    const std::string filePath = a.at(i++);

    NullLogger logger;
    std::vector<std::string> files;
    simplecpp::TokenList tokens(files);
    Preprocessor preprocessor(tokens, s, logger, fileLang);
    CppCheck cppcheck(s, supprs, logger, nullptr, false, {});
    std::ostringstream dump;
    supprs.nomsg.dump(dump, filePath);
    return {std::to_string(cppcheck.calculateHash(preprocessor, filePath)), dump.str(), s.platform.toString(),
            s.standards.getC() + s.standards.getCPP()};
}

VH_MAIN()
