// Correspondence harness for the cache-file loader (C20): tinyxml2 + AnalyzerInformation::skipAnalysis
// on given bytes. Decodes a case, calls the real code, prints the result. No logic of its own.
#include "vh_common.h"

#include <fstream>
#include <list>
#include <unistd.h>

#define private public
#define protected public
#include "analyzerinfo.h"
#undef private
#undef protected
#include "errorlogger.h"
#include "xml.h"

static const std::string& scratchFile() {
    struct ScratchFile {
        std::string f;
        ScratchFile() {
            char tmpl[] = "/tmp/vh_c20_XXXXXX";
            const int fd = mkstemp(tmpl);
            if (fd >= 0)
                close(fd);
            f = tmpl;
        }
        ~ScratchFile() {
            std::remove(f.c_str());
        }
    };
    static const ScratchFile s;
    return s.f;
}

// loadskip hash bytes : what AnalyzerInformation::analyzeFile decides for a cache file with these bytes:
// "1" = XML_SUCCESS and skipAnalysis() == "" (cached result used), "0" = discarded
VH_CMD(loadskip) {
    const std::size_t hash = static_cast<std::size_t>(std::strtoull(a.at(0).c_str(), nullptr, 10));
    const std::string bytes = a.size() > 1 ? a[1] : std::string();
    {
        std::ofstream f(scratchFile(), std::ios::binary | std::ios::trunc);
        f << bytes;
    }
    tinyxml2::XMLDocument doc;
    const tinyxml2::XMLError err = doc.LoadFile(scratchFile().c_str());
    if (err != tinyxml2::XML_SUCCESS)
        return {"0", tinyxml2::XMLDocument::ErrorIDToName(err)};
    std::list<ErrorMessage> errors;
    const std::string r = AnalyzerInformation::skipAnalysis(doc, hash, errors);
    return {r.empty() ? "1" : "0", r};
}

// cleanup : remove the scratch file
VH_CMD(cleanup) {
    std::remove(scratchFile().c_str());
    return {"ok"};
}

VH_MAIN()
