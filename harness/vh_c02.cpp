// C02 harness: the container table the real Library builds from cfg/std.cfg, and the
// EMPTY/SIZE yield mapping of the real setTokenValue is observed through the binary (see c02.py).
// Decode a case, call the real function, print. No logic.
#include "vh_common.h"
#include "library.h"
#include <memory>

static const Library& stdlib_(const std::string& cfg) {
    static std::map<std::string, std::unique_ptr<Library>> libs;
    auto& p = libs[cfg];
    if (!p) {
        p.reset(new Library);
        const Library::Error e = p->load(nullptr, cfg.c_str());
        if (e.errorcode != Library::ErrorCode::OK)
            throw std::runtime_error("cannot load " + cfg);
    }
    return *p;
}

// fields: cfg path, container id  ->  stdStringLike stdAssociativeLike startPattern (name action yield)*
VH_CMD(funcs) {
    const Library& lib = stdlib_(a.at(0));
    const auto it = lib.containers().find(a.at(1));
    if (it == lib.containers().end())
        return Fields{"N"};
    const Library::Container& c = it->second;
    Fields r{vhBool(c.stdStringLike), vhBool(c.stdAssociativeLike), c.startPattern};
    for (const auto& f : c.functions) {
        r.push_back(f.first);
        r.push_back(vhNum(static_cast<int>(f.second.action)));
        r.push_back(vhNum(static_cast<int>(f.second.yield)));
    }
    return r;
}

// fields: cfg path  ->  container ids
VH_CMD(conts) {
    const Library& lib = stdlib_(a.at(0));
    Fields r;
    for (const auto& c : lib.containers())
        r.push_back(c.first);
    return r;
}

// fields: cfg path, container id, member -> getAction getYield
VH_CMD(get) {
    const Library& lib = stdlib_(a.at(0));
    const auto it = lib.containers().find(a.at(1));
    if (it == lib.containers().end())
        return Fields{"N"};
    return Fields{vhNum(static_cast<int>(it->second.getAction(a.at(2)))), vhNum(static_cast<int>(it->second.getYield(a.at(2))))};
}

VH_MAIN()
