// Correspondence harness for the type model (C09): the numeric values of the ValueType::Type
// enumerators that setValueType compares. Everything else is observed end to end through --dump.
#include "vh_common.h"

#include "symboldatabase.h"

VH_CMD(ranks) {
    using T = ValueType::Type;
    Fields f;
    for (T t : {T::BOOL, T::CHAR, T::SHORT, T::WCHAR_T, T::INT, T::LONG, T::LONGLONG, T::UNKNOWN_INT, T::FLOAT, T::DOUBLE, T::LONGDOUBLE})
        f.push_back(std::to_string(static_cast<int>(t)));
    return f;
}

VH_MAIN()
