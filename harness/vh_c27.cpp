// C27 harness: the real Settings::isEnabled(const ValueFlow::Value*, bool) and the severity group.
#include "vh_common.h"
#include "errortypes.h"
#include "settings.h"
#include "vfvalue.h"

static void applyMask(Settings &s, const std::string &mask, const std::string &inc) {
    for (int k = 0; k < 9; k++)
        s.severity.setEnabled(static_cast<Severity>(k), mask.at(k) == '1');
    s.certainty.setEnabled(Certainty::inconclusive, inc == "1");
}

// fields: mask(9) inconclusive_on condition defaultArg value_inconclusive inconclusiveCheck -> 0/1
VH_CMD(isenabled) {
    static const int dummy = 0;
    Settings s;
    applyMask(s, a.at(0), a.at(1));
    ValueFlow::Value v;
    v.condition = a.at(2) == "1" ? reinterpret_cast<const Token *>(&dummy) : nullptr;   // only tested against nullptr
    v.defaultArg = a.at(3) == "1";
    if (a.at(4) == "1")
        v.setInconclusive();
    return Fields{vhBool(s.isEnabled(&v, a.at(5) == "1"))};
}

VH_MAIN()
