// Correspondence harness for the suppression model (C23, C24, C25).
// Decodes a case, calls the real code, prints the result. No logic of its own.
#include "vh_common.h"

#include "cppcheck.h"
#include "errorlogger.h"
#include "errortypes.h"
#include "filesettings.h"
#include "settings.h"
#include "suppressions.h"
#include "utils.h"
#include "preprocessor.h"
#include "standards.h"

#include <simplecpp.h>
#include <sstream>

#include <list>

static SuppressionList::Type typeOf(const std::string& s) {
    switch (vhToLL(s)) {
    case 1: return SuppressionList::Type::file;
    case 2: return SuppressionList::Type::block;
    case 3: return SuppressionList::Type::blockBegin;
    case 4: return SuppressionList::Type::blockEnd;
    case 5: return SuppressionList::Type::macro;
    default: return SuppressionList::Type::unique;
    }
}

// id file line begin end type symbol macro hash next inline matched checked
static SuppressionList::Suppression takeSupp(const Fields& a, std::size_t& i) {
    SuppressionList::Suppression s;
    s.errorId = a.at(i++);
    s.fileName = a.at(i++);
    s.lineNumber = static_cast<int>(vhToLL(a.at(i++)));
    s.lineBegin = static_cast<int>(vhToLL(a.at(i++)));
    s.lineEnd = static_cast<int>(vhToLL(a.at(i++)));
    s.type = typeOf(a.at(i++));
    s.symbolName = a.at(i++);
    s.macroName = a.at(i++);
    s.hash = static_cast<std::size_t>(std::strtoull(a.at(i++).c_str(), nullptr, 10));
    s.thisAndNextLine = a.at(i++) == "1";
    s.isInline = a.at(i++) == "1";
    s.matched = a.at(i++) == "1";
    s.checked = a.at(i++) == "1";
    return s;
}

// hash id file line symbols nmacros macros...
static SuppressionList::ErrorMessage takeEmsg(const Fields& a, std::size_t& i) {
    SuppressionList::ErrorMessage e;
    e.hash = static_cast<std::size_t>(std::strtoull(a.at(i++).c_str(), nullptr, 10));
    e.errorId = a.at(i++);
    e.setFileName(a.at(i++));
    e.lineNumber = static_cast<int>(vhToLL(a.at(i++)));
    e.certainty = Certainty::normal;
    e.symbolNames = a.at(i++);
    const long long n = vhToLL(a.at(i++));
    for (long long k = 0; k < n; k++)
        e.macroNames.insert(a.at(i++));
    return e;
}

static void flagsOut(const SuppressionList& l, Fields& out) {
    for (const auto& s : l.getSuppressions()) {
        out.push_back(vhBool(s.matched));
        out.push_back(vhBool(s.checked));
    }
}

VH_CMD(glob) {
    return {vhBool(matchglob(a.at(0), a.at(1)))};
}

VH_CMD(issup) {
    std::size_t i = 0;
    const SuppressionList::Suppression s = takeSupp(a, i);
    const SuppressionList::ErrorMessage e = takeEmsg(a, i);
    switch (s.isSuppressed(e)) {
    case SuppressionList::Suppression::Result::None: return {"N"};
    case SuppressionList::Suppression::Result::Checked: return {"C"};
    case SuppressionList::Suppression::Result::Matched: return {"M"};
    }
    return {"?"};
}

// the list is filled through addSuppression (as every front end does); a
// rejected suppression is reported as such
static bool fill(SuppressionList& l, const Fields& a, std::size_t& i, std::string& err) {
    const long long n = vhToLL(a.at(i++));
    for (long long k = 0; k < n; k++) {
        const std::string e = l.addSuppression(takeSupp(a, i));
        if (!e.empty() && err.empty())
            err = e;
    }
    return err.empty();
}

VH_CMD(list) {
    std::size_t i = 0;
    SuppressionList l;
    std::string err;
    if (!fill(l, a, i, err))
        return {"rejected", err};
    Fields out;
    const long long n = vhToLL(a.at(i++));
    for (long long k = 0; k < n; k++) {
        const SuppressionList::ErrorMessage e = takeEmsg(a, i);
        const bool g = a.at(i++) == "1";
        out.push_back(vhBool(l.isSuppressed(e, g)));
    }
    flagsOut(l, out);
    return out;
}

namespace {
    class Recorder : public ErrorLogger {
    public:
        int count = 0;
        void reportOut(const std::string&, Color) override {}
        void reportErr(const ErrorMessage&) override { count++; }
        void reportMetric(const std::string&) override {}
    };
}

// g nomsg... nofail... msgs(emsg + text)
VH_CMD(logger) {
    std::size_t i = 0;
    const bool g = a.at(i++) == "1";
    Suppressions supprs;
    std::string err;
    if (!fill(supprs.nomsg, a, i, err) || !fill(supprs.nofail, a, i, err))
        return {"rejected", err};
    Settings settings;
    settings.templateFormat = "{message}";
    Recorder rec;
    CppCheck cppcheck(settings, supprs, rec, nullptr, g, nullptr);
    Fields out;
    const long long n = vhToLL(a.at(i++));
    for (long long k = 0; k < n; k++) {
        const SuppressionList::ErrorMessage e = takeEmsg(a, i);
        const std::string text = a.at(i++);
        std::string msgtext;
        // symbol names travel inside the message text ($symbol:name\n)
        std::string::size_type pos = 0;
        while (pos < e.symbolNames.size()) {
            std::string::size_type p2 = e.symbolNames.find('\n', pos);
            if (p2 == std::string::npos) p2 = e.symbolNames.size();
            msgtext += "$symbol:" + e.symbolNames.substr(pos, p2 - pos) + "\n";
            pos = p2 + 1;
        }
        msgtext += text;
        std::list<ErrorMessage::FileLocation> cs;
        cs.emplace_back(e.getFileName(), e.lineNumber, 1U);
        ErrorMessage m(std::move(cs), e.getFileName(), Severity::error, msgtext, e.errorId, Certainty::normal);
        m.hash = e.hash;
        const int before = rec.count;
        cppcheck.verifLogger().reportErr(m);
        out.push_back(vhBool(rec.count > before));
    }
    out.push_back(vhBool(cppcheck.verifExitCode() != 0));
    flagsOut(supprs.nomsg, out);
    flagsOut(supprs.nofail, out);
    return out;
}

// file supp -> local global inline
VH_CMD(unmatched) {
    std::size_t i = 0;
    const std::string file = a.at(i++);
    SuppressionList l;
    const std::string e = l.addSuppression(takeSupp(a, i));
    if (!e.empty())
        return {"rejected", e};
    const FileWithDetails fwd(file, Standards::Language::CPP, 0);
    return {vhBool(!l.getUnmatchedLocalSuppressions(fwd).empty()),
            vhBool(!l.getUnmatchedGlobalSuppressions().empty()),
            vhBool(!l.getUnmatchedInlineSuppressions().empty())};
}

// ---- how suppressions are given: parseLine / toString / parseFile / parseComment / parseMultiSuppressComment
VH_CMD(pline) {
    try {
        const SuppressionList::Suppression s = SuppressionList::parseLine(a.at(0));
        return {"ok", s.errorId, s.fileName, vhNum(s.lineNumber), s.symbolName, vhBool(s.isPolyspace)};
    } catch (const std::runtime_error& e) {
        return {"E", std::string(e.what()).substr(0, 12)};
    }
}

VH_CMD(pfile) {
    SuppressionList l;
    std::istringstream istr(a.at(0));
    const std::string err = l.parseFile(istr);
    Fields out{vhBool(err.empty())};
    for (const auto& s : l.getSuppressions()) {
        out.push_back(s.errorId);
        out.push_back(s.fileName);
        out.push_back(vhNum(s.lineNumber));
        out.push_back(s.symbolName);
    }
    return out;
}

VH_CMD(pcomment) {
    SuppressionList::Suppression s;
    std::string err;
    if (!s.parseComment(a.at(0), &err))
        return {"0"};
    return {"1", s.errorId, s.symbolName, s.extraComment, vhBool(err.empty())};
}

VH_CMD(pmulti) {
    std::string err;
    const std::vector<SuppressionList::Suppression> v = SuppressionList::parseMultiSuppressComment(a.at(0), &err);
    Fields out{vhBool(err.empty())};
    for (const auto& s : v) {
        out.push_back(s.errorId);
        out.push_back(s.symbolName);
    }
    return out;
}

VH_CMD(tostr) {
    SuppressionList::Suppression s;
    s.errorId = a.at(0);
    s.fileName = a.at(1);
    s.lineNumber = static_cast<int>(vhToLL(a.at(2)));
    s.symbolName = a.at(3);
    return {s.toString()};
}

// source text -> number of invalidSuppression reports, then every suppression the preprocessor adds:
// id symbol type line begin end thisAndNextLine
VH_CMD(inlsup) {
    Settings settings;
    settings.inlineSuppressions = true;
    std::vector<std::string> files;
    std::istringstream istr(a.at(0));
    simplecpp::TokenList tokens(istr, files, "f.c");
    Recorder rec;
    Preprocessor pp(tokens, settings, rec, Standards::Language::C);
    SuppressionList sl;
    pp.inlineSuppressions(sl);
    Fields out{vhNum(rec.count)};
    for (const auto& s : sl.getSuppressions()) {
        out.push_back(s.errorId);
        out.push_back(s.symbolName);
        out.push_back(vhNum(static_cast<int>(s.type)));
        out.push_back(vhNum(s.lineNumber));
        out.push_back(vhNum(s.lineBegin));
        out.push_back(vhNum(s.lineEnd));
        out.push_back(vhBool(s.thisAndNextLine));
    }
    return out;
}

VH_MAIN()
