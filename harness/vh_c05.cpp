// C05 harness: the raw lexer. Writes the case to a file and reads it the way cppcheck does
// (simplecpp::TokenList(filename, ...) -> FileStream -> readfile -> combineOperators). Decode, call, print.
#include "vh_common.h"
#include <cstdio>
#include <fstream>
#include <string>
#include <unistd.h>
#include "simplecpp.h"

static std::string tmpName() {
    static const std::string n = "/tmp/vh_c05_" + std::to_string(static_cast<long>(getpid())) + ".c";
    return n;
}

// field 0: source bytes. result: str line col comment per token
VH_CMD(lex) {
    const std::string src = a.empty() ? std::string() : a[0];
    {
        std::ofstream f(tmpName(), std::ios::binary | std::ios::trunc);
        f.write(src.data(), static_cast<std::streamsize>(src.size()));
    }
    std::vector<std::string> files;
    simplecpp::OutputList out;
    simplecpp::TokenList tl(tmpName(), files, &out);
    Fields r;
    for (const simplecpp::Token* t = tl.cfront(); t; t = t->next) {
        r.push_back(t->str());
        r.push_back(vhNum(t->location.line));
        r.push_back(vhNum(t->location.col));
        r.push_back(vhBool(t->comment));
    }
    std::remove(tmpName().c_str());
    return r;
}

VH_MAIN()
