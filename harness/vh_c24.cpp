// Correspondence harness for C24/C25: the commands of vh_c23.cpp (glob, issup,
// list, logger, unmatched) plus ops (addSuppression / updateSuppressionState),
// mark (markUnmatchedInlineSuppressionsAsChecked) and report
// (CppCheckExecutor::reportUnmatchedSuppressions). Decode, call, print; no logic.
#include "vh_common.h"
#undef VH_MAIN
#define VH_MAIN()
#include "vh_c23.cpp"
#undef VH_MAIN

#include "cppcheckexecutor.h"
#include "tokenlist.h"
#include "token.h"

static void identOut(const SuppressionList& l, Fields& out) {
    for (const auto& s : l.getSuppressions()) {
        out.push_back(s.errorId);
        out.push_back(s.fileName);
        out.push_back(vhNum(s.lineNumber));
        out.push_back(vhBool(s.matched));
        out.push_back(vhBool(s.checked));
    }
}

// supps..., ops: kind (A add, U update, O add-then-update-if-refused: the two calls
// made by ThreadData::check / ProcessExecutor::handleRead) + supp
VH_CMD(ops) {
    std::size_t i = 0;
    SuppressionList l;
    std::string err;
    if (!fill(l, a, i, err))
        return {"rejected", err};
    Fields out;
    const long long n = vhToLL(a.at(i++));
    for (long long k = 0; k < n; k++) {
        const std::string kind = a.at(i++);
        const SuppressionList::Suppression s = takeSupp(a, i);
        if (kind == "A")
            out.push_back(vhBool(l.addSuppression(s).empty()));
        else if (kind == "U")
            out.push_back(vhBool(l.updateSuppressionState(s)));
        else {
            if (!l.addSuppression(s).empty())
                l.updateSuppressionState(s);
            out.push_back("O");
        }
    }
    out.push_back("|");
    identOut(l, out);
    return out;
}

// supps..., locs: (file, line)...  -> flags
VH_CMD(mark) {
    std::size_t i = 0;
    SuppressionList l;
    std::string err;
    if (!fill(l, a, i, err))
        return {"rejected", err};
    const Settings settings;
    TokenList tl(settings, Standards::Language::C);
    const long long n = vhToLL(a.at(i++));
    for (long long k = 0; k < n; k++) {
        const std::string file = a.at(i++);
        const int line = static_cast<int>(vhToLL(a.at(i++)));
        const int idx = tl.appendFileIfNew(file);
        tl.addtoken("x", line, 1, idx);
    }
    l.markUnmatchedInlineSuppressionsAsChecked(tl);
    Fields out;
    flagsOut(l, out);
    return out;
}

namespace {
    class Collector : public ErrorLogger {
    public:
        Fields out;
        void reportOut(const std::string&, Color) override {}
        void reportErr(const ErrorMessage& m) override {
            out.push_back(m.callStack.empty() ? std::string() : m.callStack.front().getfile(false));
            out.push_back(vhNum(m.callStack.empty() ? 0 : m.callStack.front().line));
            // "Unmatched suppression: <id>"
            const std::string& sm = m.shortMessage();
            const std::string::size_type p = sm.find(": ");
            out.push_back(m.id == "unmatchedSuppression" && p != std::string::npos ? sm.substr(p + 2) : "?" + m.id + "?" + sm);
        }
        void reportMetric(const std::string&) override {}
    };
    // protected static -> reachable from a derived class
    class Exec : public CppCheckExecutor {
    public:
        using CppCheckExecutor::reportUnmatchedSuppressions;
    };
}

// inline_enabled, filters..., supps (with flags)..., paths...
VH_CMD(report) {
    std::size_t i = 0;
    Settings settings;
    settings.inlineSuppressions = a.at(i++) == "1";
    long long n = vhToLL(a.at(i++));
    for (long long k = 0; k < n; k++)
        settings.unmatchedSuppressionFilters.push_back(a.at(i++));
    SuppressionList l;
    std::string err;
    if (!fill(l, a, i, err))
        return {"rejected", err};
    std::list<FileWithDetails> files;
    n = vhToLL(a.at(i++));
    for (long long k = 0; k < n; k++)
        files.emplace_back(a.at(i++), Standards::Language::C, 0);
    Collector c;
    const bool e = Exec::reportUnmatchedSuppressions(settings, l, files, {}, c);
    Fields out{vhBool(e)};
    out.insert(out.end(), c.out.begin(), c.out.end());
    return out;
}

int main(int argc, char** argv) { return vhMain(argc, argv); }
