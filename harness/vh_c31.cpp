// Correspondence harness for the path matching / file selection model (C31).
// Decodes a case, calls the real code, prints the result. No logic of its own.
#include "vh_common.h"

#include "path.h"
#include "pathmatch.h"
#include "filelister.h"
#include "filesettings.h"
#include "standards.h"

#include <list>
#include <set>

namespace {
    // PathIterator is a protected nested class
    class Open : public PathMatch {
    public:
        static std::string readPattern(const std::string& pattern, const std::string& base, Syntax syntax) {
            PathIterator it = PathIterator::fromPattern(pattern, base, syntax);
            return it.read();
        }
        static std::string readPath(const std::string& path, const std::string& base, Syntax syntax) {
            PathIterator it = PathIterator::fromPath(path, base, syntax);
            return it.read();
        }
        static std::string readRaw(const std::string& a, const std::string& b, Syntax syntax) {
            PathIterator it(a.c_str(), b.c_str(), syntax);
            return it.read();
        }
    };
}

static PathMatch::Syntax syntaxOf(const std::string& s) {
    return s == "w" ? PathMatch::Syntax::windows : PathMatch::Syntax::unix;
}
static PathMatch::Filemode modeOf(const std::string& s) {
    return s == "d" ? PathMatch::Filemode::directory : PathMatch::Filemode::regular;
}

// pattern path basepath mode(f|d) syntax(u|w)
VH_CMD(pm) {
    return {vhBool(PathMatch::match(a.at(0), a.at(1), a.at(2), modeOf(a.at(3)), syntaxOf(a.at(4))))};
}

// pattern basepath syntax -> what the pattern iterator reads (already re-reversed by read())
VH_CMD(iterpat) {
    return {Open::readPattern(a.at(0), a.at(1), syntaxOf(a.at(2)))};
}

// path basepath syntax -> what the path iterator reads
VH_CMD(iterpath) {
    return {Open::readPath(a.at(0), a.at(1), syntaxOf(a.at(2)))};
}

// a b syntax -> PathIterator(a, b).read()
VH_CMD(iterraw) {
    return {Open::readRaw(a.at(0), a.at(1), syntaxOf(a.at(2)))};
}

VH_CMD(simplify) {
    return {Path::simplifyPath(a.at(0))};
}

static std::string langOf(Standards::Language l) {
    switch (l) {
    case Standards::Language::None: return "N";
    case Standards::Language::C: return "C";
    case Standards::Language::CPP: return "P";
    }
    return "?";
}

// path nextra extra... -> accepted language
VH_CMD(accept) {
    std::set<std::string> extra;
    const long long n = vhToLL(a.at(1));
    for (long long k = 0; k < n; k++)
        extra.insert(a.at(2 + k));
    Standards::Language lang = Standards::Language::None;
    const bool r = Path::acceptFile(a.at(0), extra, &lang);
    return {vhBool(r), langOf(lang)};
}

// path -> language header
VH_CMD(identify) {
    bool header = false;
    const Standards::Language l = Path::identify(a.at(0), false, &header);
    return {langOf(l), vhBool(header)};
}

// the case carries the directory tree for the model; the real lister reads it from the file system
static void skipTree(const Fields& a, std::size_t& i) {
    const bool dir = a.at(i) == "D";
    i += 2;
    if (dir) {
        const long long n = vhToLL(a.at(i++));
        for (long long k = 0; k < n; k++)
            skipTree(a, i);
    }
}

// path tree... basepath nignored ignored... -> err file...   (FileLister::recursiveAddFiles on the real file system)
VH_CMD(lister) {
    std::size_t i = 1;
    skipTree(a, i);
    const std::string base = a.at(i++);
    std::vector<std::string> ign;
    const long long n = vhToLL(a.at(i++));
    for (long long k = 0; k < n; k++)
        ign.push_back(a.at(i++));
    const PathMatch matcher(ign, base);
    std::list<FileWithDetails> files;
    const std::string err = FileLister::recursiveAddFiles(files, a.at(0), {}, matcher);
    Fields out;
    out.push_back(err);
    for (const FileWithDetails& f : files)
        out.push_back(f.path());
    return out;
}

VH_MAIN()
