// C08 / C05 harness: drives lib/tokenize.cpp's file-local VariableMap through the guarded
// script driver verifVariableMapScript (hook a37a0ca). Decode, call, print.
#include "vh_common.h"
#include <sstream>
#include <string>

std::string verifVariableMapScript(const std::string& script);

// fields: one op per field: "E" | "L" | "N" | "A" g name | "U" g ctx name | "F" g name
VH_CMD(vm) {
    std::string script;
    for (const std::string& f : a) {
        if (f.empty()) continue;
        const char c = f[0];
        if (c == 'E' || c == 'L' || c == 'N')
            script += std::string(1, c) + "\n";
        else if ((c == 'A' || c == 'F') && f.size() >= 3)
            script += std::string(1, c) + " " + f.substr(2) + " " + f[1] + "\n";
        else if (c == 'U' && f.size() >= 4)
            script += std::string("U ") + f.substr(3) + " " + f[1] + " " + f[2] + "\n";
        else
            return Fields{"!"};
    }
    std::istringstream in(verifVariableMapScript(script));
    Fields out;
    std::string t;
    while (in >> t) {
        if (t == "e") out.push_back("0");
        else if (t == "l0") out.push_back("0");
        else if (t == "l1") out.push_back("1");
        else out.push_back(t.substr(1));
    }
    return out;
}

VH_MAIN()
