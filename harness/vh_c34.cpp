// C34 harness: the real CppCheck::executeAddons (and, through it, the file-static executeAddon)
// driven by a scripted command callback instead of a python process; ErrorMessage::setmsg and
// severityFromString for the small streams. Decode, call, print: no logic.
#include "vh_common.h"

#include <cstdio>
#include <fstream>
#include <unistd.h>

#define private public
#include "cppcheck.h"
#undef private
#include "addoninfo.h"
#include "errorlogger.h"
#include "errortypes.h"
#include "settings.h"
#include "suppressions.h"

namespace {
    struct Collect : ErrorLogger {
        Fields out;
        void reportOut(const std::string &, Color) override {}
        void reportMetric(const std::string &) override { out.emplace_back("M"); }
        void reportErr(const ErrorMessage &msg) override {
            if (msg.severity == Severity::internal && msg.id == "ctuinfo") { out.emplace_back("S"); return; }
            if (msg.id == "internalError") { out.emplace_back("E"); return; }
            out.emplace_back("F");
            out.push_back(msg.id);
            out.push_back(severityToString(msg.severity));
            out.push_back(msg.shortMessage());
            out.push_back(msg.verboseMessage());
            out.push_back(msg.symbolNames());
            out.push_back(std::to_string(msg.cwe.id));
            out.push_back(std::to_string(msg.hash));
            out.push_back(std::to_string(msg.callStack.size()));
            for (const auto &l : msg.callStack) {
                out.push_back(l.getOrigFile(false));
                out.push_back(l.getinfo());
                out.push_back(std::to_string(l.line));
                out.push_back(std::to_string(l.column));
            }
        }
    };
}

// fields: mask(9 x '0'/'1') builddir misra cert autosar naddons (exitcode output)*
VH_CMD(file) {
    std::size_t i = 0;
    Settings settings;
    const std::string mask = a.at(i++);
    for (int s = 0; s < 9; s++)
        settings.severity.setEnabled(static_cast<Severity>(s), mask.at(s) == '1');
    const bool builddir = a.at(i++) == "1";
    std::string prem;
    if (a.at(i++) == "1") prem += " --misra-c-2012";
    if (a.at(i++) == "1") prem += " --cert-c-2016";
    if (a.at(i++) == "1") prem += " --autosar";
    settings.premiumArgs = prem;
    // every field the dedup text can see, so that only identical results collapse
    settings.templateFormat = "{callstack}|{id}|{severity}|{message}|{cwe}";
    const std::string dir = "/tmp/vh_c34_" + std::to_string(getpid());
    const std::string dump = dir + ".dump";
    if (builddir)
        settings.buildDir = dir;
    const long long n = vhToLL(a.at(i++));
    std::vector<std::pair<int, std::string>> script;
    for (long long k = 0; k < n; k++) {
        AddonInfo info;
        info.name = "ad" + std::to_string(k);
        info.scriptFile = info.name + ".py";
        info.runScript = "runaddon.py";
        info.python = "python3";
        settings.addons.emplace(info.name);
        settings.addonInfos.push_back(info);
        const int ec = static_cast<int>(vhToLL(a.at(i++)));
        script.emplace_back(ec, a.at(i++));
    }
    std::size_t call = 0;
    const CppCheck::ExecuteCmdFn exec = [&](std::string, std::vector<std::string>, std::string, std::string &output) {
        const auto &s = script.at(call++);
        output = s.second;
        return s.first;
    };
    Collect log;
    Suppressions supprs;
    {
        CppCheck cppcheck(settings, supprs, log, nullptr, true, exec);
        try {
            cppcheck.executeAddons(std::vector<std::string>{dump}, "file0.c");
        } catch (const std::runtime_error &) {
            // CppCheck::checkInternal's handler turns this into an internalError finding (seen end-to-end in the other stream)
            log.out.emplace_back("E");
        }
    }
    if (builddir) {
        std::ifstream f(dir + ".ctu-info");
        std::string line;
        while (std::getline(f, line))
            log.out.emplace_back("S");
        f.close();
        std::remove((dir + ".ctu-info").c_str());
    }
    return log.out;
}

// fields: message -> short verbose symbols
VH_CMD(setmsg) {
    ErrorMessage m;
    m.setmsg(a.empty() ? std::string() : a.at(0));
    return Fields{m.shortMessage(), m.verboseMessage(), m.symbolNames()};
}

// fields: string -> canonical severity name
VH_CMD(sev) {
    return Fields{severityToString(severityFromString(a.empty() ? std::string() : a.at(0)))};
}

VH_MAIN()
