// C13: the preprocessor alone (externals/simplecpp), built with -fsanitize=undefined,address by
// tools/props/c13.py. Reads "op a b" lines, preprocesses `#if (a) op (b)`, prints one line per case.
// A sanitizer report ends the process (no recovery): the case it died on is the failing input.
#include "simplecpp.h"

#include <iostream>
#include <list>
#include <sstream>
#include <string>
#include <vector>

static std::string ppNum(const std::string& d) {
    if (d == "-9223372036854775808")
        return "(-9223372036854775807 - 1)";
    if (!d.empty() && d[0] == '-')
        return "(" + d + ")";
    return d;
}

int main() {
    std::string line;
    while (std::getline(std::cin, line)) {
        std::istringstream is(line);
        std::string op, a, b;
        is >> op >> a >> b;
        const std::string code = "#if " + ppNum(a) + " " + op + " " + ppNum(b) + "\n#endif\n";
        std::vector<std::string> files;
        simplecpp::OutputList outputList;
        const simplecpp::TokenList raw(code.data(), code.size(), files, "test.c", &outputList);
        simplecpp::TokenList out(files);
        simplecpp::FileDataCache cache;
        simplecpp::DUI dui;
        std::list<simplecpp::MacroUsage> mu;
        std::list<simplecpp::IfCond> ifCond;
        simplecpp::preprocess(out, raw, files, cache, dui, &outputList, &mu, &ifCond);
        if (!outputList.empty())
            std::cout << "X" << std::endl;
        else if (ifCond.size() != 1)
            std::cout << "?" << std::endl;
        else
            std::cout << "V " << ifCond.front().result << std::endl;
    }
    return 0;
}
