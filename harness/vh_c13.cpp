// Correspondence harness for the bracket-linking model (C13).
// Decodes a case (token strings), lets the real lexer build the token list, calls the real
// Tokenizer::createLinks / Tokenizer::simplifyTokens1 and prints what happened. No logic of its own.
#include "vh_common.h"

#include "color.h"
#include "errorlogger.h"
#include "errortypes.h"
#include "settings.h"
#include "standards.h"
#include "token.h"
#include "tokenize.h"
#include "tokenlist.h"

#include <simplecpp.h>
#include <list>

#include <map>
#include <vector>

namespace {
    class QuietLogger : public ErrorLogger {
    public:
        std::string ids;
        void reportOut(const std::string& /*outmsg*/, Color /*c*/) override {}
        void reportErr(const ErrorMessage& msg) override {
            if (!ids.empty()) ids += ',';
            ids += msg.id;
        }
        void reportMetric(const std::string& /*metric*/) override {}
    };

    class OpenTokenizer : public Tokenizer {
    public:
        using Tokenizer::Tokenizer;
        using Tokenizer::createLinks;
        using Tokenizer::validate;
    };

    std::string joined(const Fields& a, std::size_t from) {
        std::string code;
        for (std::size_t i = from; i < a.size(); i++) {
            code += a[i];
            code += ' ';
        }
        return code;
    }
}

// in:  token strings   out: "ok" then per token the index of its link ("-" = none) | "E" index id | "rej" why
VH_CMD(links) {
    const std::string code = joined(a, 0);
    static const Settings settings;
    QuietLogger logger;
    OpenTokenizer tokenizer{TokenList{settings, Standards::Language::CPP}, logger};
    tokenizer.list.appendFileIfNew("test.cpp");
    if (!tokenizer.list.createTokensFromBuffer(code.data(), code.size()))
        return {"rej", "createTokens"};
    std::map<const Token*, int> pos;
    int n = 0;
    for (const Token* t = tokenizer.tokens(); t; t = t->next()) {
        if (static_cast<std::size_t>(n) >= a.size() || t->str() != a[n])
            return {"rej", "token " + std::to_string(n) + " is " + t->str()};
        pos[t] = n++;
    }
    if (static_cast<std::size_t>(n) != a.size())
        return {"rej", "count " + std::to_string(n)};
    try {
        tokenizer.createLinks();
    } catch (const InternalError& e) {
        const auto it = pos.find(e.token);
        return {"E", it == pos.end() ? "?" : std::to_string(it->second), e.id};
    }
    Fields out{"ok"};
    for (const Token* t = tokenizer.tokens(); t; t = t->next()) {
        const Token* l = t->link();
        out.push_back(l ? std::to_string(pos.at(l)) : "-");
    }
    return out;
}

// in: (token string, link index or "-") pairs: the links are set as given, then Tokenizer::validate
// out: "ok" | "E" index id | "rej" why
VH_CMD(validate) {
    std::string code;
    for (std::size_t i = 0; i + 1 < a.size(); i += 2) {
        code += a[i];
        code += ' ';
    }
    static const Settings settings;
    QuietLogger logger;
    OpenTokenizer tokenizer{TokenList{settings, Standards::Language::CPP}, logger};
    tokenizer.list.appendFileIfNew("test.cpp");
    if (!tokenizer.list.createTokensFromBuffer(code.data(), code.size()))
        return {"rej", "createTokens"};
    std::vector<Token*> toks;
    for (Token* t = tokenizer.list.front(); t; t = t->next()) {
        if (2 * toks.size() >= a.size() || t->str() != a[2 * toks.size()])
            return {"rej", "token " + std::to_string(toks.size()) + " is " + t->str()};
        toks.push_back(t);
    }
    if (2 * toks.size() != a.size())
        return {"rej", "count " + std::to_string(toks.size())};
    for (std::size_t i = 0; i < toks.size(); i++) {
        const std::string& l = a[2 * i + 1];
        if (l == "-" || l.empty())
            continue;
        const std::size_t j = static_cast<std::size_t>(vhToLL(l));
        if (j >= toks.size())
            return {"rej", "link out of range"};
        toks[i]->link(toks[j]);
    }
    try {
        tokenizer.validate();
    } catch (const InternalError& e) {
        for (std::size_t i = 0; i < toks.size(); i++)
            if (toks[i] == e.token)
                return {"E", std::to_string(i), e.id};
        return {"E", "?", e.id};
    }
    return {"ok"};
}

// in: op a b (decimal long long): `#if (a) op (b)` through simplecpp::preprocess
// out: "V" value of the condition | "X" message
static std::string ppNum(const std::string& d) {
    if (d == "-9223372036854775808")
        return "(-9223372036854775807 - 1)";
    if (!d.empty() && d[0] == '-')
        return "(" + d + ")";
    return d;
}

VH_CMD(ppfold) {
    const std::string code = "#if " + ppNum(a.at(1)) + " " + a.at(0) + " " + ppNum(a.at(2)) + "\n#endif\n";
    std::vector<std::string> files;
    simplecpp::OutputList outputList;
    const simplecpp::TokenList raw(code.data(), code.size(), files, "test.c", &outputList);
    simplecpp::TokenList out(files);
    simplecpp::FileDataCache cache;
    simplecpp::DUI dui;
    std::list<simplecpp::MacroUsage> mu;
    std::list<simplecpp::IfCond> ifCond;
    simplecpp::preprocess(out, raw, files, cache, dui, &outputList, &mu, &ifCond);
    if (!outputList.empty())
        return {"X", outputList.front().msg};
    if (ifCond.size() != 1)
        return {"?"};
    return {"V", std::to_string(ifCond.front().result)};
}

// in: lang ("c"|"cpp") then token strings: the whole front end (simplifyTokens1) on the same text
// out: "ok" | "E" id | "rej"
VH_CMD(front) {
    const bool cpp = a.at(0) == "cpp";
    const std::string code = joined(a, 1);
    static const Settings settings;
    QuietLogger logger;
    Tokenizer tokenizer{TokenList{settings, cpp ? Standards::Language::CPP : Standards::Language::C}, logger};
    tokenizer.list.appendFileIfNew(cpp ? "test.cpp" : "test.c");
    if (!tokenizer.list.createTokensFromBuffer(code.data(), code.size()))
        return {"rej", "createTokens"};
    try {
        if (!tokenizer.simplifyTokens1(""))
            return {"ok", "false"};
    } catch (const InternalError& e) {
        return {"E", e.id};
    }
    return {"ok", "true"};
}

VH_MAIN()
