// C28 harness: the real Check::getMessageId (protected static) on a decoded case.
#include "vh_common.h"
#include "check.h"
#include "vfvalue.h"

struct VhCheck : Check {
    static std::string msgid(const ValueFlow::Value &v, const char *id) { return Check::getMessageId(v, id); }
};

// fields: cond(0/1) safe(0/1) base-id  ->  id
VH_CMD(msgid) {
    static const int dummy = 0;
    ValueFlow::Value v;
    v.condition = (a.at(0) == "1") ? reinterpret_cast<const Token *>(&dummy) : nullptr;   // only compared with nullptr
    v.safe = a.at(1) == "1";
    return Fields{VhCheck::msgid(v, a.at(2).c_str())};
}

VH_MAIN()
