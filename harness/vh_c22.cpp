// Correspondence harness for the whole-program summary model (C22).
// Decodes a case, calls the real code (toString -> tinyxml2 -> loadFromXml, analyseWholeProgram),
// prints the result. No logic of its own.
#include "vh_common.h"

#include "analyzerinfo.h"
#include "check.h"
#include "checks.h"
#include "ctu.h"
#include "errorlogger.h"
#include "filesettings.h"
#include "errortypes.h"
#include "settings.h"
#include "vfvalue.h"
#include "xml.h"

#include <cstdio>
#include <cstdlib>
#include <list>
#include <memory>
#include <unistd.h>

static CTU::FileInfo::FunctionCall takeFc(const Fields& a, std::size_t& i) {
    CTU::FileInfo::FunctionCall f;
    f.callId = a.at(i++);
    f.callArgNr = static_cast<int>(vhToLL(a.at(i++)));
    f.callFunctionName = a.at(i++);
    f.location.fileName = a.at(i++);
    f.location.lineNumber = static_cast<int>(vhToLL(a.at(i++)));
    f.location.column = static_cast<int>(vhToLL(a.at(i++)));
    f.callArgumentExpression = a.at(i++);
    f.callValueType = static_cast<ValueFlow::Value::ValueType>(vhToLL(a.at(i++)));
    f.callArgValue.value = vhToLL(a.at(i++));
    f.callArgValue.unknownFunctionReturn = static_cast<ValueFlow::Value::UnknownFunctionReturn>(vhToLL(a.at(i++)));
    f.warning = a.at(i++) == "1";
    const long long n = vhToLL(a.at(i++));
    for (long long k = 0; k < n; k++) {
        const std::string file = a.at(i++);
        const int line = static_cast<int>(vhToLL(a.at(i++)));
        const unsigned int col = static_cast<unsigned int>(vhToLL(a.at(i++)));
        const std::string info = a.at(i++);
        f.callValuePath.emplace_back(file, info, line, col);
    }
    return f;
}

static CTU::FileInfo::NestedCall takeNc(const Fields& a, std::size_t& i) {
    CTU::FileInfo::NestedCall n;
    n.callId = a.at(i++);
    n.callArgNr = static_cast<int>(vhToLL(a.at(i++)));
    n.callFunctionName = a.at(i++);
    n.location.fileName = a.at(i++);
    n.location.lineNumber = static_cast<int>(vhToLL(a.at(i++)));
    n.location.column = static_cast<int>(vhToLL(a.at(i++)));
    n.myId = a.at(i++);
    n.myArgNr = static_cast<int>(vhToLL(a.at(i++)));
    return n;
}

static CTU::FileInfo::UnsafeUsage takeUu(const Fields& a, std::size_t& i) {
    CTU::FileInfo::UnsafeUsage u;
    u.myId = a.at(i++);
    u.myArgNr = static_cast<int>(vhToLL(a.at(i++)));
    u.myArgumentName = a.at(i++);
    u.location.fileName = a.at(i++);
    u.location.lineNumber = static_cast<int>(vhToLL(a.at(i++)));
    u.location.column = static_cast<int>(vhToLL(a.at(i++)));
    u.value = vhToLL(a.at(i++));
    return u;
}

static void takeCtu(const Fields& a, std::size_t& i, CTU::FileInfo& c) {
    const long long nf = vhToLL(a.at(i++));
    for (long long k = 0; k < nf; k++)
        c.functionCalls.push_back(takeFc(a, i));
    const long long nn = vhToLL(a.at(i++));
    for (long long k = 0; k < nn; k++)
        c.nestedCalls.push_back(takeNc(a, i));
}

static void flocOut(const ErrorMessage::FileLocation& l, Fields& out) {
    out.push_back(l.getfile(false));
    out.push_back(vhNum(l.line));
    out.push_back(vhNum(l.column));
    out.push_back(l.getinfo());
}

static void ctuOut(const CTU::FileInfo& c, Fields& out) {
    out.push_back(vhNum(static_cast<long long>(c.functionCalls.size())));
    for (const auto& f : c.functionCalls) {
        out.push_back(f.callId);
        out.push_back(vhNum(f.callArgNr));
        out.push_back(f.callFunctionName);
        out.push_back(f.location.fileName);
        out.push_back(vhNum(f.location.lineNumber));
        out.push_back(vhNum(f.location.column));
        out.push_back(f.callArgumentExpression);
        out.push_back(vhNum(static_cast<int>(f.callValueType)));
        out.push_back(vhNum(f.callArgValue.value));
        out.push_back(vhNum(static_cast<int>(f.callArgValue.unknownFunctionReturn)));
        out.push_back(vhBool(f.warning));
        out.push_back(vhNum(static_cast<long long>(f.callValuePath.size())));
        for (const auto& l : f.callValuePath)
            flocOut(l, out);
    }
    out.push_back(vhNum(static_cast<long long>(c.nestedCalls.size())));
    for (const auto& n : c.nestedCalls) {
        out.push_back(n.callId);
        out.push_back(vhNum(n.callArgNr));
        out.push_back(n.callFunctionName);
        out.push_back(n.location.fileName);
        out.push_back(vhNum(n.location.lineNumber));
        out.push_back(vhNum(n.location.column));
        out.push_back(n.myId);
        out.push_back(vhNum(n.myArgNr));
    }
}

// the text goes where cppcheck puts it: inside <FileInfo check="..."> of an analyzer info file
static bool parseWrapped(tinyxml2::XMLDocument& doc, const std::string& inner) {
    const std::string text = "<?xml version=\"1.0\"?>\n<analyzerinfo hash=\"0\">\n  <FileInfo check=\"x\">\n" + inner + "  </FileInfo>\n</analyzerinfo>\n";
    return doc.Parse(text.data(), text.size()) == tinyxml2::XML_SUCCESS;
}

static const tinyxml2::XMLElement* fileInfoElement(const tinyxml2::XMLDocument& doc) {
    return doc.FirstChildElement()->FirstChildElement("FileInfo");
}

VH_CMD(toxml) {
    const std::string x = ErrorLogger::toxml(a.at(0));
    tinyxml2::XMLDocument doc;
    const std::string text = "<a v=\"" + x + "\"/>";
    if (doc.Parse(text.data(), text.size()) != tinyxml2::XML_SUCCESS)
        return {x, "!parse"};
    const char* v = doc.FirstChildElement()->Attribute("v");
    return {x, v ? std::string(v) : std::string("!noattr")};
}

VH_CMD(rawattr) {
    tinyxml2::XMLDocument doc;
    const std::string text = "<a v=\"" + a.at(0) + "\"/>";
    if (doc.Parse(text.data(), text.size()) != tinyxml2::XML_SUCCESS)
        return {"!parse"};
    const char* v = doc.FirstChildElement()->Attribute("v");
    return {v ? std::string(v) : std::string("!noattr")};
}

VH_CMD(ctu) {
    std::size_t i = 0;
    CTU::FileInfo c;
    takeCtu(a, i, c);
    tinyxml2::XMLDocument doc;
    if (!parseWrapped(doc, c.toString()))
        return {"!parse"};
    CTU::FileInfo back;
    back.loadFromXml(fileInfoElement(doc));
    Fields out;
    ctuOut(back, out);
    return out;
}

// ncfg ctu*: the summaries of one source analysed under ncfg configurations go to ONE analyzer-info file through
// AnalyzerInformation::setFileInfo (one call per configuration, as CppCheck::checkNormalTokens does) and are read
// back through AnalyzerInformation::processFilesTxt (as CppCheck::analyseWholeProgram(buildDir, ...) does)
VH_CMD(ctucfgs) {
    std::size_t i = 0;
    const long long ncfg = vhToLL(a.at(i++));
    std::list<CTU::FileInfo> cfgs;
    for (long long k = 0; k < ncfg; k++) {
        cfgs.emplace_back();
        takeCtu(a, i, cfgs.back());
    }
    char tmpl[] = "/tmp/vh_c22_XXXXXX";
    const char* dir = mkdtemp(tmpl);
    if (!dir)
        throw std::runtime_error("mkdtemp failed");
    const std::string bd(dir);
    const std::string src = "src.c";
    Fields out;
    std::string err;
    CTU::FileInfo back;
    {
        AnalyzerInformation::writeFilesTxt(bd, {src}, {});
        AnalyzerInformation ai;
        std::list<ErrorMessage> errors;
        ai.analyzeFile(bd, src, "", 0, 1, errors);
        for (const CTU::FileInfo& c : cfgs)
            ai.setFileInfo("ctu", c.toString());
        ai.close();
        const auto handler = [&back](const char* checkattr, const tinyxml2::XMLElement* e, const AnalyzerInformation::Info&) {
            if (std::string(checkattr) == "ctu")
                back.loadFromXml(e);
        };
        err = AnalyzerInformation::processFilesTxt(bd, handler);
    }
    const std::string afile = AnalyzerInformation::getAnalyzerInfoFile(bd, src, "", 0);
    std::remove(afile.c_str());
    std::remove((bd + "/files.txt").c_str());
    rmdir(bd.c_str());
    if (!err.empty())
        return {"!parse"};
    ctuOut(back, out);
    return out;
}

VH_CMD(uu) {
    std::size_t i = 0;
    std::list<CTU::FileInfo::UnsafeUsage> l;
    const long long n = vhToLL(a.at(i++));
    for (long long k = 0; k < n; k++)
        l.push_back(takeUu(a, i));
    tinyxml2::XMLDocument doc;
    if (!parseWrapped(doc, CTU::toString(l)))
        return {"!parse"};
    const std::list<CTU::FileInfo::UnsafeUsage> back = CTU::loadUnsafeUsageListFromXml(fileInfoElement(doc));
    Fields out;
    out.push_back(vhNum(static_cast<long long>(back.size())));
    for (const auto& u : back) {
        out.push_back(u.myId);
        out.push_back(vhNum(u.myArgNr));
        out.push_back(u.myArgumentName);
        out.push_back(u.location.fileName);
        out.push_back(vhNum(u.location.lineNumber));
        out.push_back(vhNum(u.location.column));
        out.push_back(vhNum(u.value));
    }
    return out;
}

namespace {
    class Collect : public ErrorLogger {
    public:
        Fields out;
        long long n = 0;
        void reportOut(const std::string&, Color) override {}
        void reportMetric(const std::string&) override {}
        void reportErr(const ErrorMessage& msg) override {
            if (msg.severity == Severity::internal)
                return;   // logChecker
            n++;
            out.push_back(msg.id);
            out.push_back(msg.severity == Severity::error ? "0" : (msg.severity == Severity::warning ? "1" : "2"));
            out.push_back(msg.shortMessage());
            out.push_back(msg.file0);
            out.push_back(vhNum(static_cast<long long>(msg.callStack.size())));
            for (const auto& l : msg.callStack)
                flocOut(l, out);
        }
    };
}

static Check* checkByName(const std::string& name) {
    for (Check* c : CheckInstances::get())
        if (c->name() == name)
            return c;
    throw std::runtime_error("no check named " + name);
}

// kind warn depth mode file0 ctu uus
VH_CMD(wp) {
    std::size_t i = 0;
    const long long kind = vhToLL(a.at(i++));
    const bool warn = a.at(i++) == "1";
    const int depth = static_cast<int>(vhToLL(a.at(i++)));
    const bool mode = a.at(i++) == "1";
    const std::string file0 = a.at(i++);
    CTU::FileInfo mem;
    takeCtu(a, i, mem);
    std::list<CTU::FileInfo::UnsafeUsage> l;
    const long long n = vhToLL(a.at(i++));
    for (long long k = 0; k < n; k++)
        l.push_back(takeUu(a, i));

    // summaries "read back from the build directory": toString -> parse -> loadFromXml
    CTU::FileInfo stored;
    if (mode) {
        tinyxml2::XMLDocument doc;
        if (!parseWrapped(doc, mem.toString()))
            return {"!parse"};
        stored.loadFromXml(fileInfoElement(doc));
    }
    const CTU::FileInfo& ctu = mode ? stored : mem;

    // the checks' own FileInfo classes are private to their translation units: they can only be
    // obtained from loadFileInfoFromXml (then written with their own toString and loaded again)
    Check* const check = checkByName(kind == 0 ? "Null pointer" : (kind == 1 ? "Uninitialized variables" : "Bounds checking"));
    std::string inner = CTU::toString(l);
    if (kind == 2)
        inner = "    <array-index>\n" + inner + "    </array-index>\n";
    else if (kind == 3)
        inner = "    <pointer-arith>\n" + inner + "    </pointer-arith>\n";
    tinyxml2::XMLDocument doc1;
    if (!parseWrapped(doc1, inner))
        return {"!parse"};
    std::unique_ptr<Check::FileInfo> fi1(check->loadFileInfoFromXml(fileInfoElement(doc1)));
    std::list<Check::FileInfo*> fileInfo;
    std::unique_ptr<Check::FileInfo> fi2;
    if (fi1) {
        tinyxml2::XMLDocument doc2;
        if (!parseWrapped(doc2, fi1->toString()))
            return {"!parse"};
        fi2.reset(check->loadFileInfoFromXml(fileInfoElement(doc2)));
        if (fi2) {
            fi2->file0 = file0;
            fileInfo.push_back(fi2.get());
        }
    }

    Settings settings;
    settings.maxCtuDepth = depth;
    if (warn)
        settings.severity.enable(Severity::warning);
    Collect log;
    check->analyseWholeProgram(ctu, fileInfo, settings, log);
    Fields out;
    out.push_back(vhNum(log.n));
    out.insert(out.end(), log.out.begin(), log.out.end());
    return out;
}

VH_MAIN()
