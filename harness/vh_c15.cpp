// Correspondence harness for C15: message codec and Executor::hasToLog.
// Decodes a case, calls the real code, prints the result. No logic of its own.
#include "vh_common.h"

#include <list>
#include <set>
#include <mutex>
#include <string>
#include <cstring>
#include <unistd.h>

#define private public
#define protected public
#include "errorlogger.h"
#include "executor.h"
#include "processexecutor.h"
#undef private
#undef protected

#include "cppcheck.h"
#include "errortypes.h"
#include "filesettings.h"
#include "path.h"
#include "settings.h"
#include "suppressions.h"
#include "utils.h"

static const Severity kSev[] = {Severity::none, Severity::error, Severity::warning, Severity::style, Severity::performance,
                                Severity::portability, Severity::information, Severity::debug, Severity::internal};

static SuppressionList::Type typeOf(const std::string& s) {
    switch (vhToLL(s)) {
    case 1: return SuppressionList::Type::file;
    case 2: return SuppressionList::Type::block;
    case 3: return SuppressionList::Type::blockBegin;
    case 4: return SuppressionList::Type::blockEnd;
    case 5: return SuppressionList::Type::macro;
    default: return SuppressionList::Type::unique;
    }
}

// id file line begin end type symbol macro hash next inline matched checked
static SuppressionList::Suppression takeSupp(const Fields& a, std::size_t& i) {
    SuppressionList::Suppression s;
    s.errorId = a.at(i++);
    s.fileName = a.at(i++);
    s.lineNumber = static_cast<int>(vhToLL(a.at(i++)));
    s.lineBegin = static_cast<int>(vhToLL(a.at(i++)));
    s.lineEnd = static_cast<int>(vhToLL(a.at(i++)));
    s.type = typeOf(a.at(i++));
    s.symbolName = a.at(i++);
    s.macroName = a.at(i++);
    s.hash = static_cast<std::size_t>(std::strtoull(a.at(i++).c_str(), nullptr, 10));
    s.thisAndNextLine = a.at(i++) == "1";
    s.isInline = a.at(i++) == "1";
    s.matched = a.at(i++) == "1";
    s.checked = a.at(i++) == "1";
    return s;
}

static void flagsOut(const SuppressionList& l, Fields& out) {
    for (const auto& s : l.getSuppressions()) {
        out.push_back(vhBool(s.matched));
        out.push_back(vhBool(s.checked));
    }
}

static bool fill(SuppressionList& l, const Fields& a, std::size_t& i, std::string& err) {
    const long long n = vhToLL(a.at(i++));
    for (long long k = 0; k < n; k++) {
        const std::string e = l.addSuppression(takeSupp(a, i));
        if (!e.empty() && err.empty())
            err = e;
    }
    return err.empty();
}

// id sev cwe hash remark file0 inc short verbose symbols nframes (line col file orig info)*
static ErrorMessage takeMsg(const Fields& a, std::size_t& i) {
    ErrorMessage m;
    m.id = a.at(i++);
    m.severity = kSev[vhToLL(a.at(i++)) % 9];
    m.cwe.id = static_cast<unsigned short>(std::strtoull(a.at(i++).c_str(), nullptr, 10));
    m.hash = static_cast<std::size_t>(std::strtoull(a.at(i++).c_str(), nullptr, 10));
    m.remark = a.at(i++);
    m.file0 = a.at(i++);
    m.certainty = a.at(i++) == "1" ? Certainty::inconclusive : Certainty::normal;
    m.mShortMessage = a.at(i++);
    m.mVerboseMessage = a.at(i++);
    m.mSymbolNames = a.at(i++);
    const long long n = vhToLL(a.at(i++));
    for (long long k = 0; k < n; k++) {
        const int line = static_cast<int>(vhToLL(a.at(i++)));
        const unsigned int col = static_cast<unsigned int>(std::strtoull(a.at(i++).c_str(), nullptr, 10));
        const std::string file = a.at(i++);
        const std::string orig = a.at(i++);
        const std::string info = a.at(i++);
        ErrorMessage::FileLocation loc(orig, info, line, col);
        loc.mFileName = file;   // the raw member, as given (the model's l_file)
        m.callStack.push_back(std::move(loc));
    }
    return m;
}

static void msgOut(const ErrorMessage& m, Fields& out) {
    out.push_back(m.id);
    int sev = 0;
    for (int k = 0; k < 9; k++)
        if (kSev[k] == m.severity)
            sev = k;
    out.push_back(vhNum(sev));
    out.push_back(std::to_string(m.cwe.id));
    out.push_back(std::to_string(m.hash));
    out.push_back(m.remark);
    out.push_back(m.file0);
    out.push_back(vhBool(m.certainty == Certainty::inconclusive));
    out.push_back(m.mShortMessage);
    out.push_back(m.mVerboseMessage);
    out.push_back(m.mSymbolNames);
    out.push_back(std::to_string(m.callStack.size()));
    for (const auto& l : m.callStack) {
        out.push_back(std::to_string(l.line));
        out.push_back(std::to_string(l.column));
        out.push_back(l.getfile(false));
        out.push_back(l.getOrigFile(false));
        out.push_back(l.getinfo());
    }
}

VH_CMD(fix) {
    return {ErrorMessage::fixInvalidChars(a.empty() ? std::string() : a.at(0))};
}

VH_CMD(simp) {
    return {Path::simplifyPath(a.empty() ? std::string() : a.at(0))};
}

VH_CMD(ser) {
    std::size_t i = 0;
    const ErrorMessage m = takeMsg(a, i);
    return {m.serialize()};
}

static Fields deserOut(const std::string& wire) {
    ErrorMessage m;
    try {
        m.deserialize(wire);
    } catch (const InternalError& e) {
        return {"E", e.errorMessage};
    } catch (const std::runtime_error& e) {
        return {"E", std::string("runtime_error:") + e.what()};
    }
    Fields out{"ok"};
    msgOut(m, out);
    return out;
}

VH_CMD(deser) {
    return deserOut(a.empty() ? std::string() : a.at(0));
}

// serialize then deserialize with the real code: the receiving side's message
VH_CMD(rtimpl) {
    std::size_t i = 0;
    const ErrorMessage m = takeMsg(a, i);
    return deserOut(m.serialize());
}

// kind (0 int, 1 unsigned int, 2 unsigned short, 3 size_t), string
VH_CMD(int) {
    const long long k = vhToLL(a.at(0));
    const std::string s = a.size() > 1 ? a.at(1) : std::string();
    bool ok;
    std::string r;
    if (k == 0) { int v = 0; ok = strToInt(s, v); r = std::to_string(v); }
    else if (k == 1) { unsigned int v = 0; ok = strToInt(s, v); r = std::to_string(v); }
    else if (k == 2) { unsigned short v = 0; ok = strToInt(s, v); r = std::to_string(v); }
    else { std::size_t v = 0; ok = strToInt(s, v); r = std::to_string(v); }
    if (!ok)
        return {"E"};
    return {r};
}

namespace {
    class Recorder : public ErrorLogger {
    public:
        void reportOut(const std::string&, Color) override {}
        void reportErr(const ErrorMessage&) override {}
        void reportMetric(const std::string&) override {}
    };
    class Exec : public Executor {
    public:
        using Executor::Executor;
        unsigned int check() override { return 0; }
    };
}

// emitDuplicates nomsg... msgs(hash id file line symbols nmacros macros... text internal)
VH_CMD(htl) {
    std::size_t i = 0;
    const bool ed = a.at(i++) == "1";
    Suppressions supprs;
    std::string err;
    if (!fill(supprs.nomsg, a, i, err))
        return {"rejected", err};
    Settings settings;
    settings.templateFormat = "{message}";
    settings.emitDuplicates = ed;
    Recorder rec;
    const std::list<FileWithDetails> files;
    const std::list<FileSettings> fileSettings;
    Exec ex(files, fileSettings, settings, supprs, rec, nullptr);
    Fields out;
    const long long n = vhToLL(a.at(i++));
    for (long long k = 0; k < n; k++) {
        const std::size_t hash = static_cast<std::size_t>(std::strtoull(a.at(i++).c_str(), nullptr, 10));
        const std::string id = a.at(i++);
        const std::string file = a.at(i++);
        const int line = static_cast<int>(vhToLL(a.at(i++)));
        const std::string symbols = a.at(i++);
        const long long nm = vhToLL(a.at(i++));
        i += static_cast<std::size_t>(nm);   // macro names are never passed to hasToLog (it passes {})
        const std::string text = a.at(i++);
        const bool internal = a.at(i++) == "1";
        ErrorMessage m;
        m.id = id;
        m.severity = internal ? Severity::internal : Severity::error;
        m.hash = hash;
        m.file0 = file;
        m.mShortMessage = text;
        m.mVerboseMessage = text;
        m.mSymbolNames = symbols;
        m.callStack.emplace_back(file, line, 1U);
        out.push_back(vhBool(ex.hasToLog(m)));
    }
    flagsOut(supprs.nomsg, out);
    return out;
}

static const char* const kTmplFormat = "{file}:{line}:{column}:{id}:{message}";
static const char* const kTmplLocation = "{file}:{line}:{column}:{info}";

// verbose msg... -> ErrorMessage::toString with the two fixed templates
VH_CMD(render) {
    std::size_t i = 0;
    const bool vb = a.at(i++) == "1";
    const ErrorMessage m = takeMsg(a, i);
    return {m.toString(vb, kTmplFormat, kTmplLocation)};
}

// emitDuplicates nomsg... msgs(full messages with call stacks): Executor::hasToLog with a location template
VH_CMD(htlm) {
    std::size_t i = 0;
    const bool ed = a.at(i++) == "1";
    Suppressions supprs;
    std::string err;
    if (!fill(supprs.nomsg, a, i, err))
        return {"rejected", err};
    Settings settings;
    settings.templateFormat = kTmplFormat;
    settings.templateLocation = kTmplLocation;
    settings.emitDuplicates = ed;
    Recorder rec;
    const std::list<FileWithDetails> files;
    const std::list<FileSettings> fileSettings;
    Exec ex(files, fileSettings, settings, supprs, rec, nullptr);
    Fields out;
    const long long n = vhToLL(a.at(i++));
    for (long long k = 0; k < n; k++) {
        const ErrorMessage m = takeMsg(a, i);
        out.push_back(vhBool(ex.hasToLog(m)));
    }
    flagsOut(supprs.nomsg, out);
    return out;
}

// list..., updates...: SuppressionList::updateSuppressionState for each update in order
VH_CMD(upd) {
    std::size_t i = 0;
    SuppressionList l;
    std::string err;
    if (!fill(l, a, i, err))
        return {"rejected", err};
    const long long n = vhToLL(a.at(i++));
    for (long long k = 0; k < n; k++)
        l.updateSuppressionState(takeSupp(a, i));
    Fields out;
    flagsOut(l, out);
    return out;
}

// id file line symbol poly -> Suppression::toString()
VH_CMD(sstr) {
    SuppressionList::Suppression s;
    s.errorId = a.at(0);
    s.fileName = a.at(1);
    s.lineNumber = static_cast<int>(vhToLL(a.at(2)));
    s.symbolName = a.at(3);
    s.isPolyspace = a.at(4) == "1";
    return {s.toString()};
}

// buf -> ProcessExecutor::handleRead on a REPORT_SUPPR record carrying buf (through a real pipe, empty
// suppression list): the suppression the parent ends up with
VH_CMD(sread) {
    const std::string buf = a.empty() ? std::string() : a.at(0);
    int fds[2];
    if (pipe(fds) != 0)
        return {"E", "pipe"};
    const char type = '4';
    const unsigned int len = static_cast<unsigned int>(buf.size());
    std::string frame(1, type);
    frame.append(reinterpret_cast<const char*>(&len), sizeof(len));
    frame += buf;
    if (write(fds[1], frame.data(), frame.size()) != static_cast<ssize_t>(frame.size())) {
        close(fds[0]); close(fds[1]);
        return {"E", "write"};
    }
    close(fds[1]);
    Suppressions supprs;
    Settings settings;
    settings.jobs = 2;
    settings.templateFormat = "{message}";
    Recorder rec;
    const std::list<FileWithDetails> files;
    const std::list<FileSettings> fileSettings;
    ProcessExecutor ex(files, fileSettings, settings, supprs, rec, nullptr, nullptr);
    unsigned int result = 0;
    Fields out;
    try {
        ex.handleRead(fds[0], result, "f");
    } catch (const std::runtime_error& e) {
        close(fds[0]);
        return {"E", std::string("runtime_error:") + e.what()};
    }
    close(fds[0]);
    const auto l = supprs.nomsg.getSuppressions();
    if (l.size() != 1)
        return {"n", std::to_string(l.size())};
    const auto& s = l.front();
    return {"ok", s.errorId, s.fileName, std::to_string(s.lineNumber), s.symbolName, vhBool(s.isPolyspace), std::to_string(s.column),
            vhBool(s.checked), vhBool(s.matched), s.extraComment};
}

VH_MAIN()
