// Common part of every correspondence harness (C++ side).
// Protocol: one case per input line; fields separated by one space, each field
// hex-encoded bytes ("-" = empty string). One output line per case, same
// encoding. A C++ exception becomes the single token "!exc:<hex of type/what>".
// There is no logic here beyond decoding a case and printing a result.
#ifndef VH_COMMON_H
#define VH_COMMON_H
#include <cstdio>
#include <cstdlib>
#include <exception>
#include <functional>
#include <iostream>
#include <map>
#include <sstream>
#include <string>
#include <vector>

using Fields = std::vector<std::string>;
using VhFn = std::function<Fields(const Fields&)>;

inline std::map<std::string, VhFn>& vhRegistry() {
    static std::map<std::string, VhFn> r;
    return r;
}
struct VhReg {
    VhReg(const char* name, VhFn f) { vhRegistry()[name] = std::move(f); }
};
#define VH_CMD(name) \
    static Fields vh_##name(const Fields& a); \
    static VhReg vh_reg_##name(#name, vh_##name); \
    static Fields vh_##name(const Fields& a)

inline std::string vhHex(const std::string& s) {
    if (s.empty()) return "-";
    static const char* d = "0123456789abcdef";
    std::string r;
    r.reserve(s.size() * 2);
    for (unsigned char c : s) { r += d[c >> 4]; r += d[c & 15]; }
    return r;
}
inline std::string vhUnhex(const std::string& h) {
    if (h == "-") return "";
    std::string r;
    auto v = [](char c) { return (c >= 'a') ? c - 'a' + 10 : c - '0'; };
    for (std::size_t i = 0; i + 1 < h.size(); i += 2) r += static_cast<char>(v(h[i]) * 16 + v(h[i + 1]));
    return r;
}
inline std::string vhNum(long long v) { return std::to_string(v); }
inline std::string vhBool(bool b) { return b ? "1" : "0"; }
inline long long vhToLL(const std::string& s) { return std::strtoll(s.c_str(), nullptr, 10); }

#include "errortypes.h"
inline std::string vhDescribeInternalError(const InternalError& e) { return e.id + ":" + e.errorMessage; }

inline int vhMain(int argc, char** argv) {
    if (argc < 2 || !vhRegistry().count(argv[1])) {
        std::cerr << "usage: vh <cmd>; commands:";
        for (const auto& e : vhRegistry()) std::cerr << ' ' << e.first;
        std::cerr << '\n';
        return 2;
    }
    const VhFn& fn = vhRegistry()[argv[1]];
    std::string line;
    std::ios::sync_with_stdio(false);
    while (std::getline(std::cin, line)) {
        Fields in;
        std::istringstream iss(line);
        std::string f;
        while (iss >> f) in.push_back(vhUnhex(f));
        std::string out;
        try {
            const Fields res = fn(in);
            for (std::size_t i = 0; i < res.size(); i++) {
                if (i) out += ' ';
                out += vhHex(res[i]);
            }
            if (res.empty()) out = "~";
        } catch (const InternalError& e) {
            out = "!exc:" + vhHex("InternalError:" + vhDescribeInternalError(e));
        } catch (const std::exception& e) {
            out = "!exc:" + vhHex(std::string("std:") + e.what());
        } catch (...) {
            out = "!exc:" + vhHex("unknown");
        }
        std::cout << out << '\n' << std::flush;
    }
    return 0;
}
#define VH_MAIN() \
    int main(int argc, char** argv) { return vhMain(argc, argv); }
#endif
