// Correspondence harness for C33 (compiled token patterns = interpreted = pattern language).
// The pattern functions live in two generated translation units (build/harness/gen):
//   c33_interp.cpp  namespace c33i : the calls Token::Match(tok, "<p>") etc. as written
//                                    (not match-compiled => the interpreter of lib/token.cpp)
//   c33_comp.cpp    namespace c33c : the same text after the real tools/matchcompiler.py
// This file only decodes a case, builds/tokenises the token list, calls both and prints.
#include "vh_common.h"

#include "color.h"
#include "errorlogger.h"
#include "errortypes.h"
#include "mathlib.h"
#include "settings.h"
#include "standards.h"
#include "token.h"
#include "tokenize.h"
#include "tokenlist.h"

#include <map>
#include <tuple>

struct C33Entry {
    int kind;          // 0 Match 1 simpleMatch 2 findmatch 3 findsimplematch
    bool hasVarid;
    bool hasEnd;
    const char* pattern;
    const Token* (*fn)(const Token* tok, const Token* end, int varid, bool& b);
};
namespace c33i { extern const C33Entry table[]; extern const unsigned count; }
namespace c33c { extern const C33Entry table[]; extern const unsigned count; }

namespace {
    class QuietLogger : public ErrorLogger {
    public:
        void reportOut(const std::string& /*outmsg*/, Color /*c*/) override {}
        void reportErr(const ErrorMessage& /*msg*/) override {}
        void reportMetric(const std::string& /*metric*/) override {}
    };

    using Key = std::tuple<int, bool, bool, std::string>;
    const std::map<Key, unsigned>& index() {
        static std::map<Key, unsigned> m;
        if (m.empty()) {
            for (unsigned i = 0; i < c33i::count; i++)
                m[Key(c33i::table[i].kind, c33i::table[i].hasVarid, c33i::table[i].hasEnd, c33i::table[i].pattern)] = i;
        }
        return m;
    }

    std::string runOne(const C33Entry& e, const std::vector<const Token*>& toks, const Token* end, int varid) {
        std::string out;
        if (e.kind < 2) {
            for (std::size_t i = 0; i <= toks.size(); i++) {
                const Token* t = i < toks.size() ? toks[i] : nullptr;
                try {
                    bool b = false;
                    e.fn(t, nullptr, varid, b);
                    out += b ? '1' : '0';
                } catch (const InternalError&) {
                    out += 'E';
                }
            }
            return out;
        }
        try {
            bool b = false;
            const Token* r = e.fn(toks.empty() ? nullptr : toks[0], end, varid, b);
            if (!r)
                return "n";
            for (std::size_t i = 0; i < toks.size(); i++)
                if (toks[i] == r)
                    return std::to_string(i);
            return "?";
        } catch (const InternalError&) {
            return "E";
        }
    }
}

// in:  kind  varid("-" = call without varid argument)  end("-" = no end argument)  pattern  (str varid tokType)*
// out: interpreted  compiled      (kind 0/1: one char per start position 0..L, L = "no token"; kind 2/3: index or n)
VH_CMD(scan) {
    const int kind = static_cast<int>(vhToLL(a.at(0)));
    const bool hasVarid = !a.at(1).empty();
    const bool hasEnd = !a.at(2).empty();
    const auto it = index().find(Key(kind, hasVarid, hasEnd, a.at(3)));
    if (it == index().end())
        return {"nopattern"};
    if (c33c::count != c33i::count || std::string(c33c::table[it->second].pattern) != a.at(3))
        return {"tablemismatch"};
    static const Settings settings;
    TokenList list{settings, Standards::Language::C};
    std::vector<const Token*> toks;
    for (std::size_t i = 4; i + 2 < a.size(); i += 3) {
        list.addtoken(a[i], 1, 1, 0);
        Token* t = list.back();
        t->varId(static_cast<int>(vhToLL(a[i + 1])));
        t->tokType(static_cast<Token::Type>(vhToLL(a[i + 2])));
        toks.push_back(t);
    }
    const Token* end = nullptr;
    if (hasEnd) {
        const std::size_t e = static_cast<std::size_t>(vhToLL(a.at(2)));
        if (e < toks.size())
            end = toks[e];
    }
    const int varid = static_cast<int>(vhToLL(a.at(1)));
    return {runOne(c33i::table[it->second], toks, end, varid), runOne(c33c::table[it->second], toks, end, varid)};
}

// in:  lang("c"|"cpp")  cstd  cppstd  code
// out: "ok" then per token: str varid tokType flags(n = isName(), l = link())      | "rej" reason
VH_CMD(tokens) {
    const bool cpp = a.at(0) == "cpp";
    Settings settings;
    if (!a.at(1).empty())
        settings.standards.setC(a.at(1));
    if (!a.at(2).empty())
        settings.standards.setCPP(a.at(2));
    QuietLogger logger;
    Tokenizer tokenizer{TokenList{settings, cpp ? Standards::Language::CPP : Standards::Language::C}, logger};
    tokenizer.list.appendFileIfNew(cpp ? "test.cpp" : "test.c");
    const std::string& code = a.at(3);
    if (!tokenizer.list.createTokensFromBuffer(code.data(), code.size()))
        return {"rej", "createTokens"};
    if (!tokenizer.simplifyTokens1(""))
        return {"rej", "simplifyTokens1"};
    Fields out{"ok"};
    for (const Token* t = tokenizer.tokens(); t; t = t->next()) {
        out.push_back(t->str());
        out.push_back(std::to_string(t->varId()));
        out.push_back(std::to_string(static_cast<int>(t->tokType())));
        out.push_back(std::string(t->isName() ? "n" : "") + (t->link() ? "l" : ""));
    }
    return out;
}

// in:  str varid link("1"/"0") cpp("1"/"0") [ignored...]
// out: tokType after update_property_info | E (InternalError)
VH_CMD(upd) {
    static const Settings settings;
    const bool cpp = a.at(3) == "1";
    TokenList list{settings, cpp ? Standards::Language::CPP : Standards::Language::C};
    list.addtoken("(", 1, 1, 0);
    Token* other = list.back();
    list.addtoken(a.at(0), 1, 1, 0);
    Token* t = list.back();
    if (t == other)
        return {"empty"};
    try {
        if (a.at(2) == "1")
            t->link(other);
        // re-evaluate with the link in place (str() resets the varid), then set the varid
        const std::string s = t->str();
        t->str(s);
        t->varId(static_cast<int>(vhToLL(a.at(1))));
    } catch (const InternalError&) {
        return {"E"};
    }
    return {std::to_string(static_cast<int>(t->tokType()))};
}

// in:  str cpp("1"/"0")
// out: isKeyword(str)  (isInt||isFloat)&&no '_'
VH_CMD(updinfo) {
    static const Settings settings;
    const bool cpp = a.at(1) == "1";
    const TokenList list{settings, cpp ? Standards::Language::CPP : Standards::Language::C};
    const std::string& s = a.at(0);
    bool numok = false;
    try {
        numok = (MathLib::isInt(s) || MathLib::isFloat(s)) && s.find('_') == std::string::npos;
    } catch (...) {}
    return {vhBool(list.isKeyword(s)), vhBool(numok)};
}

VH_MAIN()
