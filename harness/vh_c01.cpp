// Correspondence harness for the value-flow leaf functions (C01).
#include "vh_common.h"

#include "calculate.h"
#include "mathlib.h"
#include "platform.h"
#include "symboldatabase.h"
#include "vf_common.h"
#include "vfvalue.h"

static ValueType::Sign signOf(const std::string& s) {
    return s == "u" ? ValueType::Sign::UNSIGNED : ValueType::Sign::SIGNED;
}

VH_CMD(calc) {
    bool error = false;
    const MathLib::bigint cx = vhToLL(a.at(1)), cy = vhToLL(a.at(2));
    const MathLib::bigint r = calculate<MathLib::bigint, MathLib::bigint>(a.at(0), cx, cy, &error);
    if (error)
        return {"E"};
    return {vhNum(r)};
}

VH_CMD(cast) {
    ValueFlow::Value v(vhToLL(a.at(2)));
    const ValueFlow::Value r = ValueFlow::castValue(v, signOf(a.at(0)), static_cast<int>(vhToLL(a.at(1))));
    return {vhNum(r.intvalue)};
}

VH_CMD(trunc) {
    return {vhNum(ValueFlow::truncateIntValue(vhToLL(a.at(0)), static_cast<size_t>(vhToLL(a.at(1))), signOf(a.at(2))))};
}

// bits sign: a platform whose int has that many bits, queried for INT
VH_CMD(minmax) {
    Platform p;
    p.int_bit = static_cast<int>(vhToLL(a.at(0)));
    const ValueType vt(signOf(a.at(1)), p.int_bit == 1 ? ValueType::Type::BOOL : ValueType::Type::INT, 0);
    MathLib::bigint lo = 0, hi = 0;
    if (!ValueFlow::getMinMaxValues(&vt, p, lo, hi))
        return {"N"};
    return {vhNum(lo), vhNum(hi)};
}

VH_MAIN()
