// Correspondence harness for the literal model (C10).
// Decodes a case, calls the real code, prints the result. No logic of its own.
#include "vh_common.h"

#include <cerrno>
#include <cstdlib>

#include "mathlib.h"
#include "platform.h"
#include "utils.h"
#include "simplecpp.h"

// s -> isInt isIntHex isOct isBin isDec isFloat isDecimalFloat isFloatHex isCharLiteral
VH_CMD(classify) {
    const std::string& s = a.at(0);
    return Fields{vhBool(MathLib::isInt(s)), vhBool(MathLib::isIntHex(s)), vhBool(MathLib::isOct(s)),
                  vhBool(MathLib::isBin(s)), vhBool(MathLib::isDec(s)), vhBool(MathLib::isFloat(s)),
                  vhBool(MathLib::isDecimalFloat(s)), vhBool(MathLib::isFloatHex(s)), vhBool(isCharLiteral(s))};
}

// s ms -> isValidIntegerSuffix
VH_CMD(suffix) {
    return Fields{vhBool(MathLib::isValidIntegerSuffix(a.at(0), a.at(1) == "1"))};
}

// s -> toBigNumber(s) isFloat(s)
VH_CMD(tobig) {
    const std::string& s = a.at(0);
    return Fields{std::to_string(MathLib::toBigNumber(s)), vhBool(MathLib::isFloat(s))};
}

// s -> toBigUNumber(s) isFloat(s)
VH_CMD(tobigu) {
    const std::string& s = a.at(0);
    return Fields{std::to_string(MathLib::toBigUNumber(s)), vhBool(MathLib::isFloat(s))};
}

// s -> characterLiteralToLL(s)   (std::runtime_error comes back as !exc)
VH_CMD(charlit) {
    return Fields{std::to_string(simplecpp::characterLiteralToLL(a.at(0)))};
}

// base s -> consumed ERANGE value   (the C library function the model's strtoull stands for)
VH_CMD(strto) {
    const std::string& s = a.at(1);
    char* end = nullptr;
    errno = 0;
    const unsigned long long v = std::strtoull(s.c_str(), &end, static_cast<int>(vhToLL(a.at(0))));
    return Fields{std::to_string(end - s.c_str()), vhBool(errno == ERANGE), std::to_string(v)};
}

// platform-name -> char_bit bool short int long longlong float double longdouble wchar size_t pointer defaultSign
VH_CMD(sizeof) {
    Platform p;
    std::string err;
    const std::vector<std::string> paths{a.at(1)};
    if (!p.set(a.at(0), err, paths))
        return Fields{"?"};
    return Fields{std::to_string(p.char_bit), std::to_string(p.sizeof_bool), std::to_string(p.sizeof_short),
                  std::to_string(p.sizeof_int), std::to_string(p.sizeof_long), std::to_string(p.sizeof_long_long),
                  std::to_string(p.sizeof_float), std::to_string(p.sizeof_double), std::to_string(p.sizeof_long_double),
                  std::to_string(p.sizeof_wchar_t), std::to_string(p.sizeof_size_t), std::to_string(p.sizeof_pointer),
                  std::to_string(static_cast<int>(p.defaultSign))};
}

VH_MAIN()
