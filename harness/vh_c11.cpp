// Correspondence harness for C11 (preprocessing).
// Decodes a case, renders it as source text, calls the real Preprocessor / simplecpp. No logic of its own.
#include "vh_common.h"

#include "errorlogger.h"
#include "preprocessor.h"
#include "settings.h"
#include "standards.h"

#include <simplecpp.h>

#include <list>

namespace {
    class NullLogger : public ErrorLogger {
    public:
        void reportOut(const std::string&, Color) override {}
        void reportErr(const ErrorMessage&) override {}
        void reportProgress(const std::string&, const char[], const std::size_t) override {}
        void reportMetric(const std::string&) override {}
    };
}

// same encoding as coq/theories/PP/Run.v pdir_of
static std::string condText(char k, const std::string& m) {
    switch (k) {
    case '0': return "0";
    case '1': return "1";
    case 'D': return "defined(" + m + ")";
    case 'N': return "!defined(" + m + ")";
    case 'M': return m;
    case 'Z': return "1/0";
    default: throw std::runtime_error("bad condition");
    }
}
static std::string renderDirective(const std::string& f) {
    switch (f.at(0)) {
    case 'I':
        if (f.at(1) == 'd') return "#ifdef " + f.substr(2) + "\n";
        if (f.at(1) == 'n') return "#ifndef " + f.substr(2) + "\n";
        return "#if " + condText(f.at(1), f.substr(2)) + "\n";
    case 'E': return "#elif " + condText(f.at(1), f.substr(2)) + "\n";
    case 'e': return "#else\n";
    case 'x': return "#endif\n";
    case 'c': return "L" + f.substr(1) + ";\n";
    default: throw std::runtime_error("bad directive field");
    }
}

// defs(names ';'-separated) directive...  ->  status, preprocessed text
VH_CMD(cond) {
    Settings settings;
    std::string cfg;
    {
        std::istringstream d(a.at(0));
        std::string n;
        while (std::getline(d, n, ';')) {
            if (n.empty()) continue;
            if (!cfg.empty()) cfg += ';';
            cfg += n + "=1";
        }
    }
    settings.userDefines = cfg;
    std::string code;
    for (std::size_t i = 1; i < a.size(); i++)
        code += renderDirective(a[i]);
    NullLogger logger;
    std::vector<std::string> files;
    simplecpp::OutputList outputList;
    simplecpp::TokenList tokens(code.data(), code.size(), files, "test.c", &outputList);
    Preprocessor preprocessor(tokens, settings, logger, Standards::Language::C);
    if (!preprocessor.loadFiles(files))
        return {"!loadFiles"};
    preprocessor.removeComments();
    simplecpp::OutputList out2;
    const simplecpp::TokenList t2 = preprocessor.preprocess(cfg, files, out2);
    std::string msgs;
    for (const simplecpp::Output& o : out2)
        msgs += o.msg + "|";
    return {msgs.empty() ? "ok" : "err:" + msgs, t2.stringify()};
}

// n tok_1..tok_n (then the syntax tree, ignored here)  ->  value of `#if tok_1 .. tok_n` as simplecpp computes it
VH_CMD(ifx) {
    const std::size_t n = static_cast<std::size_t>(vhToLL(a.at(0)));
    std::string code = "#if";
    for (std::size_t i = 1; i <= n; i++)
        code += " " + a.at(i);
    code += "\n#endif\n";
    std::vector<std::string> files;
    simplecpp::OutputList outputList;
    const simplecpp::TokenList raw(code.data(), code.size(), files, "test.c", &outputList);
    simplecpp::TokenList out(files);
    simplecpp::FileDataCache cache;
    simplecpp::DUI dui;
    std::list<simplecpp::MacroUsage> mu;
    std::list<simplecpp::IfCond> ifCond;
    simplecpp::preprocess(out, raw, files, cache, dui, &outputList, &mu, &ifCond);
    if (!outputList.empty())
        return {"X", outputList.front().msg};
    if (ifCond.size() != 1)
        return {"?"};
    return {"V", vhNum(ifCond.front().result)};
}

VH_MAIN()
